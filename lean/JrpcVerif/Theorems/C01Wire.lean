/-
  C01 (well-formedness clause) — every reply is a well-formed JSON-RPC 2.0 response carrying the
  request's id: composition of the pipeline theorems (Theorems/C01.lean) with the wire round trips
  (Theorems/C15Wire.lean) and `slice_stable` (Theorems/TextCore.lean).
-/
import JrpcVerif.Theorems.C01
import JrpcVerif.Theorems.C15Wire
import JrpcVerif.Theorems.TextCore
namespace Jrpc.Srv
open Jrpc Jrpc.Gen.E

theorem decodeId_inDomain (raw : Text) (id : Id) (h : decodeId raw = some id) : id.inDomain := by
  unfold decodeId at h
  split at h
  · simp at h; subst h; trivial
  · split at h
    · rename_i n hn
      simp at h; subst h
      unfold decodeU64 at hn
      split at hn
      · split at hn
        · rename_i hlt; simp at hn; subst hn; exact hlt
        · simp at hn
      · simp at hn
    · split at h
      · simp at h; subst h; trivial
      · simp at h

theorem lookupField_mem (k : Text) (ms : List (Text × Text)) (v : Text) (h : lookupField k ms = some v) :
    ∃ k', (k', v) ∈ ms := by
  induction ms with
  | nil => simp [lookupField] at h
  | cons kv ms ih =>
    obtain ⟨k', v'⟩ := kv
    simp only [lookupField] at h
    split at h
    · simp at h; subst h; exact ⟨k', by simp⟩
    · obtain ⟨k'', hk⟩ := ih h; exact ⟨k'', by simp [hk]⟩

theorem decodeKeys_values (ms dms : List (Text × Text)) (h : decodeKeys ms = some dms) :
    ∀ kv ∈ dms, ∃ k, (k, kv.2) ∈ ms := by
  induction ms generalizing dms with
  | nil => simp [decodeKeys] at h; subst h; simp
  | cons kv ms ih =>
    obtain ⟨k, v⟩ := kv
    simp only [decodeKeys] at h
    split at h
    · simp at h
    · rename_i k' hk'
      split at h
      · simp at h
      · rename_i r' hr'
        simp at h; subst h
        intro x hx
        simp at hx
        rcases hx with hx | hx
        · subst hx; exact ⟨k, by simp⟩
        · obtain ⟨k2, h2⟩ := ih r' hr' x hx
          exact ⟨k2, by simp [h2]⟩

/-- the fields a derived visitor extracts from a text are Stable raw slices -/
theorem structFields_stable (known : List Text) (deny : Bool) (raw : Text) (fs : List (Option Text))
    (h : structFields known deny raw = some fs) : ∀ f ∈ fs, ∀ v, f = some v → Stable v := by
  unfold structFields at h
  split at h
  · rename_i ms hm
    split at h
    · simp at h
    · rename_i dms hd
      split at h
      · simp at h
      · split at h
        · simp at h
        · simp at h; subst h
          intro f hf v hv
          simp at hf
          obtain ⟨k, _, hk⟩ := hf
          rw [hv] at hk
          obtain ⟨k', hmem⟩ := lookupField_mem k dms v hk
          obtain ⟨k'', hmem2⟩ := decodeKeys_values ms dms hd (k', v) hmem
          exact members_stable raw ms hm (k'', v) hmem2
  · rename_i hm
    split at h
    · rename_i es he
      split at h
      · simp at h; subst h
        intro f hf v hv
        simp at hf
        obtain ⟨e, he', hfe⟩ := hf
        rw [hv] at hfe; simp at hfe; subst hfe
        exact elements_stable raw es he e he'
      · simp at h
    · simp at h

/-- whatever text a request was parsed from, its id is in the id domain and its params (if any)
are a Stable raw value other than `null` — the hypotheses of the wire round-trip theorems -/
theorem decodeRequest_wf (t : Text) (r : Request) (h : decodeRequest t = some r) :
    r.id.inDomain ∧ optRawWF r.params := by
  unfold decodeRequest at h
  split at h
  · rename_i j i m p hsf
    split at h
    · simp at h
    · split at h
      · rename_i id meth hid hmeth
        simp at h; subst h
        refine ⟨decodeId_inDomain i id hid, ?_⟩
        intro pv hpv
        simp only [optRaw] at hpv
        split at hpv
        · simp at hpv
        · rename_i pr
          split at hpv
          · simp at hpv
          · rename_i hnn
            simp at hpv; subst hpv
            exact ⟨structFields_stable _ _ _ _ hsf (some pr) (by simp) pr rfl, by simpa using hnn⟩
      · simp at h
  · simp at h

/-- the fixed "too big" error object is well formed -/
theorem tooBig_wf (max : Nat) : (⟨OVERSIZED_RESPONSE_CODE, lit OVERSIZED_RESPONSE_MSG,
    some (encodeString (lit "Exceeded max limit of " ++ encodeNat max))⟩ : ErrObj).WF := by
  refine ⟨by simp [OVERSIZED_RESPONSE_CODE], by simp [OVERSIZED_RESPONSE_CODE], ?_⟩
  intro d hd
  simp at hd; subst hd
  exact ⟨stable_encodeString _, encodeString_ne_null _⟩

/-- **C01.1 (well-formedness)** — the reply to a valid call of a non-subscription method parses
back as a JSON-RPC 2.0 response (`jsonrpc: "2.0"`, exactly one of result/error) carrying the
request's own id, for every handler outcome that is a well-formed payload. -/
theorem c01_reply_wellformed (cfg : Cfg) (tr : Transport) (sub : Nat) (t : Text) (r : Request)
    (hc : classify t = .call r) (hns : r.method ≠ nSub) (hnu : r.method ≠ nUnsub)
    (hout : ∀ k raw, handlerOutcome r.method r.params = some (k, .result raw) → Stable raw)
    (herr : ∀ k e, handlerOutcome r.method r.params = some (k, .error e) → e.WF) :
    ∃ f resp, (handleSingle cfg tr sub t).reply = some f ∧ decodeResponse f = some resp ∧
      resp.jsonrpc = true ∧ resp.id = r.id := by
  have hreq : decodeRequest t = some r := by
    unfold classify at hc
    split at hc
    · rename_i r' hr'; simp at hc; subst hc; exact hr'
    · split at hc
      · simp at hc
      · split at hc <;> simp at hc
  obtain ⟨hid, _⟩ := decodeRequest_wf t r hreq
  have hrep := c01_valid_call_echo cfg tr sub t r hc hns hnu
  have hwfE : ∀ (code : Int) (msg : String), -2147483648 ≤ code → code < 2147483648 → (errNoData code msg).WF :=
    fun code msg h1 h2 => ⟨h1, h2, by intro d hd; simp [errNoData] at hd⟩
  have key : ∀ p : Payload, p.WF → ∃ resp, decodeResponse (respText r.id p) = some resp ∧ resp.jsonrpc = true ∧ resp.id = r.id := by
    intro p hp
    exact ⟨_, c15_response_rt ⟨true, r.id, p⟩ hid hp, rfl, rfl⟩
  have keyM : ∀ p : Payload, p.WF → ∃ resp, decodeResponse (methodResponse r.id p cfg.maxResp) = some resp ∧ resp.jsonrpc = true ∧ resp.id = r.id := by
    intro p hp
    unfold methodResponse
    simp only []
    split
    · exact key p hp
    · exact key _ (tooBig_wf cfg.maxResp)
  rw [hrep]
  cases hh : handlerOutcome r.method r.params with
  | none =>
    obtain ⟨resp, h1, h2, h3⟩ := key (.error (errNoData METHOD_NOT_FOUND_CODE METHOD_NOT_FOUND_MSG)) (hwfE _ _ (by decide) (by decide))
    exact ⟨_, resp, rfl, h1, h2, h3⟩
  | some ko =>
    obtain ⟨k, o⟩ := ko
    cases o with
    | result raw =>
      obtain ⟨resp, h1, h2, h3⟩ := keyM (.result raw) (hout k raw hh)
      exact ⟨_, resp, rfl, h1, h2, h3⟩
    | error e =>
      obtain ⟨resp, h1, h2, h3⟩ := keyM (.error e) (herr k e hh)
      exact ⟨_, resp, rfl, h1, h2, h3⟩
    | panic =>
      obtain ⟨resp, h1, h2, h3⟩ := key (.error internalError) (hwfE _ _ (by decide) (by decide))
      exact ⟨_, resp, rfl, h1, h2, h3⟩

/-- the replies to non-requests are well formed too: `-32600` with the recovered id, `-32700` null -/
theorem c01_error_reply_wellformed (id : Id) (hid : id.inDomain) (code : Int) (msg : String)
    (h1 : -2147483648 ≤ code) (h2 : code < 2147483648) :
    ∃ resp, decodeResponse (errorResponse id (errNoData code msg)) = some resp ∧ resp.jsonrpc = true ∧ resp.id = id :=
  ⟨_, c15_response_rt ⟨true, id, .error (errNoData code msg)⟩ hid
      ⟨h1, h2, by intro d hd; simp [errNoData] at hd⟩, rfl, rfl⟩

end Jrpc.Srv
