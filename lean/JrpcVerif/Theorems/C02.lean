/-
  C02 — a batch is answered by one array with exactly one reply per call entry.
  Theorems over `handleBatch` / `runBatch` / `BatchB` (Model/ServerMsg.lean).
-/
import JrpcVerif.Theorems.C08
import JrpcVerif.Theorems.C01
namespace Jrpc.Srv
open Jrpc Jrpc.Gen.E

def invalidRequestErr : ErrObj := errNoData INVALID_REQUEST_CODE INVALID_REQUEST_MSG

/-- the reply an entry contributes to the array (`none` for notifications) -/
def replyOf (cfg : Cfg) (tr : Transport) (sub : Nat) : Entry → Option Text
  | .call r => some (callMethod cfg tr sub r).resp
  | .notif => none
  | .invalid id => some (errorResponse id invalidRequestErr)

def Entry.isNotif : Entry → Bool
  | .notif => true
  | _ => false

/-- no entry calls the subscription method -/
def NoSub (es : List Entry) : Prop := ∀ e ∈ es, ∀ r, e = .call r → r.method ≠ nSub

/-- **C02.3** — batching disabled, not an array, or too many entries: one error object with id
null and nothing is executed. -/
theorem c02_refused (cfg : Cfg) (tr : Transport) (sub : Nat) (t : Text) :
    (cfg.batch = .disabled →
      (handleBatch cfg tr sub t).reply = some (errorResponse .null (errNoData BATCHES_NOT_SUPPORTED_CODE BATCHES_NOT_SUPPORTED_MSG)) ∧
      (handleBatch cfg tr sub t).invoked = [] ∧ (handleBatch cfg tr sub t).direct = []) ∧
    (cfg.batch ≠ .disabled → elements t = none →
      (handleBatch cfg tr sub t).reply = some parseErrorResp ∧ (handleBatch cfg tr sub t).invoked = []) ∧
    (∀ n es, cfg.batch = .limit n → elements t = some es → n < es.length →
      (handleBatch cfg tr sub t).reply = some (errorResponse .null (rejectErr reject_too_big_batch_request n)) ∧
      (handleBatch cfg tr sub t).invoked = [] ∧ (handleBatch cfg tr sub t).direct = []) := by
  refine ⟨?_, ?_, ?_⟩
  · intro h; simp [handleBatch, h]
  · intro h hn
    unfold handleBatch
    cases hb : cfg.batch with
    | disabled => exact absurd hb h
    | limit n => simp [hn]
    | unlimited => simp [hn]
  · intro n es hb he hlt
    simp [handleBatch, hb, he, hlt]

/-- the loop over entries: on success the builder holds exactly the replies of the entries in
order, nothing was written outside it and the id counter is untouched (no subscribe entries);
on failure the result is the -32011 object. -/
theorem runBatch_spec (cfg : Cfg) (tr : Transport) : ∀ (es : List Entry) (st : BatchState) (rs : List Text),
    NoSub es → BatchInv st.b rs cfg.maxResp →
    (∀ st', runBatch cfg tr es st = .ok st' →
        BatchInv st'.b (rs ++ es.filterMap (replyOf cfg tr st.sub)) cfg.maxResp ∧
        st'.direct = st.direct ∧ st'.sub = st.sub ∧ st'.gotNotif = (st.gotNotif || es.any Entry.isNotif)) ∧
    (∀ err st', runBatch cfg tr es st = .error (err, st') →
        err = errorResponse .null (rejectErr reject_too_big_batch_response cfg.maxResp) ∧ st'.direct = st.direct) := by
  intro es
  induction es with
  | nil =>
    intro st rs _ hinv
    refine ⟨?_, ?_⟩
    · intro st' h; simp [runBatch] at h; subst h; simp [hinv]
    · intro err st' h; simp [runBatch] at h
  | cons e es ih =>
    intro st rs hns hinv
    have hns' : NoSub es := fun x hx r hr => hns x (by simp [hx]) r hr
    cases e with
    | call r =>
      have hm : r.method ≠ nSub := hns (.call r) (by simp) r rfl
      have hd := callMethod_direct_nil cfg tr st.sub r hm
      simp only [runBatch]
      have happ := c08_append st.b rs (callMethod cfg tr st.sub r).resp cfg.maxResp hinv
      by_cases hfit : byteLen (callMethod cfg tr st.sub r).resp + byteLen st.b.result + 1 ≤ cfg.maxResp
      · obtain ⟨b', hb', hinv'⟩ := happ.1 hfit
        simp only [hb']
        have := ih { st with direct := st.direct ++ (callMethod cfg tr st.sub r).direct,
                             invoked := st.invoked ++ (callMethod cfg tr st.sub r).invoked,
                             sub := (callMethod cfg tr st.sub r).nextSub, b := b' }
                  (rs ++ [(callMethod cfg tr st.sub r).resp]) hns' hinv'
        simp only [hd.1, hd.2.2, List.append_nil] at this
        refine ⟨?_, ?_⟩
        · intro st' h
          have h1 := this.1 st' (by simpa [hd.1, hd.2.2] using h)
          simpa [List.filterMap, replyOf, Entry.isNotif] using h1
        · intro err st' h
          exact this.2 err st' (by simpa [hd.1, hd.2.2] using h)
      · have hov := happ.2 (by omega)
        simp only [hov]
        refine ⟨?_, ?_⟩
        · intro st' h; simp at h
        · intro err st' h
          simp at h
          obtain ⟨h1, h2⟩ := h
          subst h1; subst h2
          simp [hd.1]
    | notif =>
      simp only [runBatch]
      have := ih { st with gotNotif := true } rs hns' hinv
      refine ⟨?_, ?_⟩
      · intro st' h
        have h1 := this.1 st' h
        simpa [List.filterMap, replyOf, Entry.isNotif] using h1
      · intro err st' h; exact this.2 err st' h
    | invalid id =>
      simp only [runBatch]
      have happ := c08_append st.b rs (errorResponse id (errNoData INVALID_REQUEST_CODE INVALID_REQUEST_MSG)) cfg.maxResp hinv
      by_cases hfit : byteLen (errorResponse id (errNoData INVALID_REQUEST_CODE INVALID_REQUEST_MSG)) + byteLen st.b.result + 1 ≤ cfg.maxResp
      · obtain ⟨b', hb', hinv'⟩ := happ.1 hfit
        simp only [hb']
        have := ih { st with b := b' } (rs ++ [errorResponse id (errNoData INVALID_REQUEST_CODE INVALID_REQUEST_MSG)]) hns' hinv'
        refine ⟨?_, ?_⟩
        · intro st' h
          have h1 := this.1 st' h
          simpa [List.filterMap, replyOf, Entry.isNotif, invalidRequestErr] using h1
        · intro err st' h; exact this.2 err st' h
      · have hov := happ.2 (by omega)
        simp only [hov]
        refine ⟨?_, ?_⟩
        · intro st' h; simp at h
        · intro err st' h
          simp at h
          obtain ⟨h1, h2⟩ := h
          subst h1; subst h2
          simp

theorem filterMap_nil_no_notif (cfg : Cfg) (tr : Transport) (sub : Nat) : ∀ (es : List Entry),
    es.filterMap (replyOf cfg tr sub) = [] → es.any Entry.isNotif = false → es = [] := by
  intro es
  induction es with
  | nil => intros; rfl
  | cons e es ih =>
    intro h1 h2
    cases e <;> simp [List.filterMap, replyOf, Entry.isNotif] at h1 h2

/-- what `handle_rpc_call` makes of the state the loop ended in -/
def finishReply (st : BatchState) : Option Text :=
  if st.b.isEmpty && st.gotNotif then none else some st.b.finish

theorem finish_cases (cfg : Cfg) (tr : Transport) (sub : Nat) (es : List Entry) (st' : BatchState)
    (hinv : BatchInv st'.b (es.filterMap (replyOf cfg tr sub)) cfg.maxResp)
    (hgot : st'.gotNotif = es.any Entry.isNotif) :
    (es.filterMap (replyOf cfg tr sub) = [] ∧ es ≠ [] ∧ finishReply st' = none) ∨
    (es = [] ∧ finishReply st' = some (errorResponse .null invalidRequestErr)) ∨
    (es.filterMap (replyOf cfg tr sub) ≠ [] ∧
      finishReply st' = some (91 :: joinElems (es.filterMap (replyOf cfg tr sub)) ++ [93])) := by
  by_cases hrs : es.filterMap (replyOf cfg tr sub) = []
  · have hres : st'.b.result = [91] := by rw [hinv.1, hrs]; rfl
    have hemp : st'.b.isEmpty = true := by simp [BatchB.isEmpty, hres]
    by_cases hg : es.any Entry.isNotif = true
    · left
      refine ⟨hrs, ?_, ?_⟩
      · intro h; subst h; simp at hg
      · simp [finishReply, hemp, hgot, hg]
    · right; left
      have hg' : es.any Entry.isNotif = false := by simpa using hg
      refine ⟨filterMap_nil_no_notif cfg tr sub es hrs hg', ?_⟩
      simp [finishReply, hemp, hgot, hg', BatchB.finish, hres, invalidRequestErr]
  · right; right
    have hf := c08_finish st'.b _ cfg.maxResp hinv hrs
    have hne : st'.b.isEmpty = false := by
      have : st'.b.result.length ≠ 1 ∧ 1 < st'.b.result.length := by
        rw [hinv.1, commaCat_eq_join _ hrs]; simp
      simp [BatchB.isEmpty]; omega
    exact ⟨hrs, by simp [finishReply, hne, hf.1]⟩

/-- **C02.1 / C02.4 / C02.5** — for an accepted batch without subscribe calls: nothing is written
outside the reply; the reply is `none` exactly for a non-empty batch of notifications only, the
single `-32600`/null object for an empty array, the single `-32011`/null object when the size
limit is hit, and otherwise the array `[r1,…,rn]` of the entries' replies in order. -/
theorem c02_shape (cfg : Cfg) (tr : Transport) (sub : Nat) (t : Text) (es : List Text)
    (hen : cfg.batch ≠ .disabled) (he : elements t = some es)
    (hlim : ∀ n, cfg.batch = .limit n → es.length ≤ n)
    (hns : NoSub (es.map classifyEntry)) :
    (handleBatch cfg tr sub t).direct = [] ∧
    ((handleBatch cfg tr sub t).reply = some (errorResponse .null (rejectErr reject_too_big_batch_response cfg.maxResp)) ∨
     ((es.map classifyEntry).filterMap (replyOf cfg tr sub) = [] ∧ es ≠ [] ∧ (handleBatch cfg tr sub t).reply = none) ∨
     (es = [] ∧ (handleBatch cfg tr sub t).reply = some (errorResponse .null invalidRequestErr)) ∨
     ((es.map classifyEntry).filterMap (replyOf cfg tr sub) ≠ [] ∧
      (handleBatch cfg tr sub t).reply = some (91 :: joinElems ((es.map classifyEntry).filterMap (replyOf cfg tr sub)) ++ [93]))) := by
  have hspec := runBatch_spec cfg tr (es.map classifyEntry) ⟨BatchB.new, false, [], [], sub⟩ [] hns (batch_inv_new cfg.maxResp)
  have key : ∀ (o : MsgOut),
      o = (match runBatch cfg tr (es.map classifyEntry) ⟨BatchB.new, false, [], [], sub⟩ with
           | .error (err, st) => ⟨some err, st.direct, st.invoked, st.sub⟩
           | .ok st => if st.b.isEmpty && st.gotNotif then ⟨none, st.direct, st.invoked, st.sub⟩
                       else ⟨some st.b.finish, st.direct, st.invoked, st.sub⟩) →
      o.direct = [] ∧
      (o.reply = some (errorResponse .null (rejectErr reject_too_big_batch_response cfg.maxResp)) ∨
       ((es.map classifyEntry).filterMap (replyOf cfg tr sub) = [] ∧ es ≠ [] ∧ o.reply = none) ∨
       (es = [] ∧ o.reply = some (errorResponse .null invalidRequestErr)) ∨
       ((es.map classifyEntry).filterMap (replyOf cfg tr sub) ≠ [] ∧
        o.reply = some (91 :: joinElems ((es.map classifyEntry).filterMap (replyOf cfg tr sub)) ++ [93]))) := by
    intro o ho
    cases hr : runBatch cfg tr (es.map classifyEntry) ⟨BatchB.new, false, [], [], sub⟩ with
    | error p =>
      obtain ⟨err, st'⟩ := p
      have := hspec.2 err st' hr
      rw [hr] at ho
      subst ho
      simp only [] at this
      exact ⟨this.2, Or.inl (by simp [this.1])⟩
    | ok st' =>
      obtain ⟨hinv, hdir, _, hgot⟩ := hspec.1 st' hr
      simp only [List.nil_append, Bool.false_or] at hinv hdir hgot
      rw [hr] at ho
      have hfr : o.reply = finishReply st' ∧ o.direct = st'.direct := by
        subst ho
        simp only [finishReply]
        split <;> simp
      rcases finish_cases cfg tr sub (es.map classifyEntry) st' hinv hgot with ⟨h1, h2, h3⟩ | ⟨h1, h2⟩ | ⟨h1, h2⟩
      · refine ⟨by rw [hfr.2, hdir], Or.inr (Or.inl ⟨h1, ?_, by rw [hfr.1, h3]⟩)⟩
        intro h; subst h; simp at h2
      · refine ⟨by rw [hfr.2, hdir], Or.inr (Or.inr (Or.inl ⟨?_, by rw [hfr.1, h2]⟩))⟩
        simpa using h1
      · exact ⟨by rw [hfr.2, hdir], Or.inr (Or.inr (Or.inr ⟨h1, by rw [hfr.1, h2]⟩))⟩
  apply key
  unfold handleBatch
  cases hb : cfg.batch with
  | disabled => exact absurd hb hen
  | limit n =>
    have hov : ¬ (es.length > n) := by have := hlim n hb; omega
    simp only [he, hov, decide_false, Bool.false_eq_true, ↓reduceIte]
    cases runBatch cfg tr (es.map classifyEntry) ⟨BatchB.new, false, [], [], sub⟩ with
    | error p => rfl
    | ok st => rfl
  | unlimited =>
    simp only [he, Bool.false_eq_true, ↓reduceIte]
    cases runBatch cfg tr (es.map classifyEntry) ⟨BatchB.new, false, [], [], sub⟩ with
    | error p => rfl
    | ok st => rfl

/-- **C02.2** — entries are classified exactly as single messages are (an entry is an object text,
so the array form of the derived visitors is excluded), and a valid call entry's reply in the array
equals the reply that entry gets when sent alone. -/
theorem c02_entry_eq_single (cfg : Cfg) (tr : Transport) (sub : Nat) (e : Text) (r : Request)
    (hobj : e.head? = some 123) :
    (classifyEntry e = .call r ↔ classify e = .call r) ∧
    (classify e = .call r → r.method ≠ nSub →
      (handleSingle cfg tr sub e).reply = replyOf cfg tr sub (classifyEntry e)) := by
  have hce : classifyEntry e = (match classify e with
      | .call r => .call r | .notif _ => .notif | .invalid id => .invalid id | .garbage => .invalid .null) := by
    simp only [classifyEntry, hobj, bne_self_eq_false, Bool.false_eq_true, ↓reduceIte]
    cases classify e <;> rfl
  refine ⟨?_, ?_⟩
  · rw [hce]; cases classify e <;> simp
  · intro hc hm
    rw [hce, hc]
    have hd := callMethod_direct_nil cfg tr sub r hm
    simp [handleSingle, hc, hd.2.1, replyOf]

/-- a non-object entry is an invalid request answered with id null -/
theorem c02_non_object_entry (e : Text) (h : e.head? ≠ some 123) : classifyEntry e = .invalid .null := by
  simp [classifyEntry, h]

/-! ### "no response to a batch entry is ever delivered outside that array" -/

/-- full statement of the clause: over WebSocket a batch yields at most one frame -/
def c02_nothing_outside_statement : Prop :=
  ∀ (cfg : Cfg) (sub : Nat) (t : Text) (idx : Nat), sniff 128 0 t = some (idx, false) →
    byteLen t ≤ cfg.maxReq → (wsMessage cfg sub t).frames.length ≤ 1

/-- `[{"jsonrpc":"2.0","id":1,"method":"sub"}]` -/
def k1Text : Text := [91, 123, 34, 106, 115, 111, 110, 114, 112, 99, 34, 58, 34, 50, 46, 48, 34, 44, 34, 105, 100, 34, 58, 49, 44, 34, 109, 101, 116, 104, 111, 100, 34, 58, 34, 115, 117, 98, 34, 125, 93]

/-- The full statement is FALSE of the current code (known finding
`ws-batch-contains-subscribe-call`, upstream TODO #1052): the subscribe response is written to the
connection directly by `accept` and again inside the array. -/
theorem c02_nothing_outside_statement_false : ¬ c02_nothing_outside_statement := by
  intro h
  have := h ⟨100000, 100000, .unlimited⟩ 0 k1Text 0 (by decide) (by decide)
  revert this
  decide

/-- **C02.4 (partial)** — proved for batches without subscribe calls (hypothesis `NoSub`): nothing
is written outside the reply (`direct = []`), so over WebSocket the batch yields at most one frame. -/
theorem c02_nothing_outside_partial (cfg : Cfg) (sub : Nat) (t : Text) (idx : Nat) (es : List Text)
    (hs : sniff 128 0 t = some (idx, false)) (hsz : byteLen t ≤ cfg.maxReq)
    (hen : cfg.batch ≠ .disabled) (he : elements (t.drop idx) = some es)
    (hlim : ∀ n, cfg.batch = .limit n → es.length ≤ n)
    (hns : NoSub (es.map classifyEntry)) :
    (wsMessage cfg sub t).frames.length ≤ 1 := by
  have hnot : ¬ byteLen t > cfg.maxReq := by omega
  have hd := (c02_shape cfg .ws sub (t.drop idx) es hen he hlim hns).1
  simp only [wsMessage, hnot, ↓reduceIte, hs, Bool.false_eq_true, hd, List.nil_append]
  cases (handleBatch cfg Transport.ws sub (t.drop idx)).reply <;> simp

end Jrpc.Srv
