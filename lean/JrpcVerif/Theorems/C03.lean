/-
  C03 — client: each call completes with exactly the response bearing its own id.

  The client is the step machine of Model/ClientMgr.lean; `Reachable st` = `st` is reached from a
  fresh client by **any** finite sequence of atomic steps (front-end operations, send-task steps
  in any order, incoming texts of any content, consumer steps, abandoned futures).  A `Ticket` is
  the ghost identity of a front-end operation: `op` numbers it, `wire` is the request id that the
  operation wrote into its message.
-/
import JrpcVerif.Proofs.ClientStepLemmas
namespace Jrpc.Client
open Jrpc

/-! ### C03.1 — own id, exact payload -/

/-- Whenever an incoming text completes a front-end future, it is either a batch (C12) or the text
is a single response `r` — `decodeResponse raw = some r`, so `r` is exactly what the text carried —
whose typed id equals the id the operation wrote on the wire (`Id.num 5 ≠ Id.str "5"`), and the
future gets `r` itself (calls) resp. the subscribe outcome determined by `r` alone. -/
theorem c03_own_id (st : St) (hr : Reachable st) (raw : Text) (t : Ticket) (o : Outcome)
    (h : Effect.complete t o ∈ (step st (.recv raw)).effs) :
    (∃ out, o = .batch out) ∨
    ∃ r, decodeResponse raw = some r ∧ r.id = t.wire ∧ (o = .response r ∨ SubOutcome r o) := by
  have hwf := (wf_reachable st hr).1
  rcases handleBack_completions st.core raw t o h with hb | ⟨r, hd, hc | ⟨uid, um, hl, hs⟩⟩
  · exact Or.inl hb
  · obtain ⟨hl, ho, _⟩ := hc
    have := hwf _ (alookup_mem _ _ _ hl)
    exact Or.inr ⟨r, hd, this.symm, Or.inl ho⟩
  · have := hwf _ (alookup_mem _ _ _ hl)
    exact Or.inr ⟨r, hd, this.symm, Or.inr hs⟩

/-- a call future is resolved with a response only by the read task: the send task resolves
futures only with `occupied` / `registered` / `alreadyRegistered`, every other step resolves nothing -/
theorem c03_responses_come_from_the_wire (st : St) (s : Step) (t : Ticket) (r : Response)
    (h : Effect.complete t (.response r) ∈ (step st s).effs) : ∃ raw, s = .recv raw ∧ decodeResponse raw = some r := by
  cases s with
  | recv raw =>
    rcases handleBack_completions st.core raw t _ h with ⟨out, hb⟩ | ⟨r', hd, hc | ⟨_, _, _, hs⟩⟩
    · simp at hb
    · obtain ⟨_, ho, _⟩ := hc
      simp at ho; subst ho
      exact ⟨raw, rfl, hd⟩
    · rcases hs with ⟨e, _, ho⟩ | ⟨_, _, ⟨_, ho⟩ | ⟨s, _, ho | ⟨c, ho⟩⟩⟩ <;> simp at ho
  | sendTask i =>
    exfalso
    cases hp : st.pool[i]? with
    | none =>
      have e : step st (.sendTask i) = { st := st } := by simp only [step, hp]
      rw [e] at h; simp at h
    | some msg =>
      have e : step st (.sendTask i) =
          { st := { st with core := (handleFront st.core msg).1, pool := removeAt st.pool i },
            effs := (handleFront st.core msg).2 } := by simp only [step, hp]
      rw [e] at h
      simp only at h
      unfold handleFront at h
      cases msg with
      | batch lo hi t0 raw =>
        simp only at h
        cases h1 : st.core.mgr.insertPendingBatch (lo, hi) t0 with
        | none => simp only [h1, Core.completeIfAlive] at h; split at h <;> simp at h
        | some m' => simp [h1] at h
      | notification raw => simp at h
      | request k t0 raw =>
        simp only at h
        cases h1 : st.core.mgr.insertPendingCall k t0 with
        | none =>
          cases t0 with
          | none => simp [h1] at h
          | some tk => simp only [h1, Core.completeIfAlive] at h; split at h <;> simp at h
        | some m' => simp [h1] at h
      | subscribe sid uid t0 um raw =>
        simp only at h
        cases h1 : st.core.mgr.insertPendingSubscription sid uid t0 um with
        | none => simp only [h1, Core.completeIfAlive] at h; split at h <;> simp at h
        | some m' => simp [h1] at h
      | subscriptionClosed s =>
        simp only at h
        cases h1 : st.core.mgr.getRequestIdBySubscriptionId s with
        | none => simp [h1] at h
        | some rid =>
          simp only [h1] at h
          split at h <;> simp at h
      | registerNotif meth t0 =>
        simp only at h
        cases h1 : st.core.mgr.insertNotificationHandler meth st.core.chans.length with
        | some m' => simp only [h1] at h; split at h <;> simp at h
        | none => simp only [h1, Core.completeIfAlive] at h; split at h <;> simp at h
      | unregisterNotif meth =>
        simp only at h
        split at h <;> simp at h
  | newCall meth params => simp [step] at h
  | newSubscribe sm um => simp [step] at h
  | newBatch meth n => simp [step] at h
  | newRegister meth => simp [step] at h
  | newNotification raw => simp [step] at h
  | abandon op => simp [step] at h
  | next c =>
    exfalso
    have : (step st (.next c)).effs = [] := by
      simp only [step]
      split
      · rfl
      · split
        · rfl
        · split
          · rfl
          · split <;> rfl
    rw [this] at h; simp at h
  | dropStream c room =>
    exfalso
    have : (step st (.dropStream c room)).effs = [] := by
      simp only [step]
      split
      · rfl
      · split <;> rfl
    rw [this] at h; simp at h
  | unsubscribeStream c =>
    exfalso
    have : (step st (.unsubscribeStream c)).effs = [] := by
      simp only [step]
      split
      · rfl
      · split <;> rfl
    rw [this] at h; simp at h

/-! ### C03.2 — never twice -/

/-- over any sequence of steps from a fresh client, every front-end operation (`op = k`) is
completed at most once — by whatever kind of completion -/
theorem c03_at_most_once (cap : Nat) (strIds : Bool) (steps : List Step) (k : Nat) :
    compCount k (run (St.init cap strIds) steps).2 ≤ 1 := by
  obtain ⟨h, _⟩ := run_count k steps (St.init cap strIds)
  have h0 : liveCount k (St.init cap strIds) = 0 := by
    simp [liveCount, St.init, poolCount, coreCount, reqCount, batCount]
  rw [h0] at h
  split at h <;> omega

/-- once an operation has been completed nothing about it is left in the client: it is neither
queued nor in any table, so no later message can complete it again -/
theorem c03_completed_is_gone (cap : Nat) (strIds : Bool) (steps : List Step) (k : Nat)
    (h : compCount k (run (St.init cap strIds) steps).2 = 1) :
    liveCount k (run (St.init cap strIds) steps).1 = 0 := by
  obtain ⟨h1, _⟩ := run_count k steps (St.init cap strIds)
  have h0 : liveCount k (St.init cap strIds) = 0 := by
    simp [liveCount, St.init, poolCount, coreCount, reqCount, batCount]
  rw [h0] at h1
  split at h1 <;> omega

/-! ### C03.3 — a response matching nothing pending completes nothing -/

theorem c03_unknown_id (st : Core) (raw : Text) (r : Response) (hd : decodeResponse raw = some r)
    (hs : st.mgr.requestStatus r.id = .invalid ∨ st.mgr.requestStatus r.id = .sub) :
    (handleBack st raw).fatal = some (.notPending r.id) ∧ (handleBack st raw).effs = [] ∧
    (handleBack st raw).st = st := by
  rw [handleBack_single_response st raw r hd]
  unfold processSingleResponse
  rcases hs with hs | hs <;> simp [hs]

/-- in particular an id that is no key of the pending table -/
theorem c03_absent_id (st : Core) (raw : Text) (r : Response) (hd : decodeResponse raw = some r)
    (hk : r.id ∉ akeys st.mgr.requests) :
    (handleBack st raw).fatal = some (.notPending r.id) ∧ (handleBack st raw).effs = [] := by
  have : st.mgr.requestStatus r.id = .invalid := by
    unfold Mgr.requestStatus
    rw [(alookup_none_iff r.id st.mgr.requests).2 hk]
  obtain ⟨a, b, _⟩ := c03_unknown_id st raw r hd (Or.inl this)
  exact ⟨a, b⟩

/-! ### C03.4 — the order of everything else does not matter -/

/-- A call waiting under `id` (ticket `t`, future not abandoned): after **any** sequence of steps
that contains neither the answer to `id` nor the abandonment of that future — other answers in any
order, duplicates, notifications, batch replies, new front-end operations, anything — delivering
the response `r` with `r.id = id` completes exactly `t`, with exactly `r`, and nothing else. -/
theorem c03_interleaving_independent (st : St) (steps : List Step) (id : Id) (t : Ticket) (raw : Text) (r : Response)
    (hc : HasCall st.core id t) (hal : st.core.alive t = true)
    (hna : ∀ s ∈ steps, ¬ Answers id s) (hnab : ∀ s ∈ steps, s ≠ .abandon t.op)
    (hd : decodeResponse raw = some r) (hid : r.id = id) :
    (step (run st steps).1 (.recv raw)).effs = [.complete t (.response r)] ∧
    (step (run st steps).1 (.recv raw)).fatal = none := by
  obtain ⟨h1, h2⟩ := run_hasCall steps id t st hna hnab hc hal
  subst hid
  simp only [step]
  rw [handleBack_single_response _ raw r hd]
  unfold processSingleResponse
  have hs : (run st steps).1.core.mgr.requestStatus r.id = .pendingCall := by
    unfold Mgr.requestStatus; unfold HasCall at h1; rw [h1]
  have hcp : (run st steps).1.core.mgr.completePendingCall r.id =
      some ({ (run st steps).1.core.mgr with requests := aerase r.id (run st steps).1.core.mgr.requests }, some t) := by
    unfold Mgr.completePendingCall; unfold HasCall at h1; rw [h1]
  simp only [hs, hcp, Core.completeIfAlive, h2, if_true, and_self]

/-! ### non-vacuity -/

def rsp (id : Id) (v : String) : Text := encodeResponse { jsonrpc := true, id := id, payload := .result (lit v) }

/-- two calls, answered in the opposite order: each gets its own answer -/
def demoSteps : List Step :=
  [.newCall tM none, .newCall tM none, .sendTask 0, .sendTask 0, .recv (rsp (.num 1) "\"b\""), .recv (rsp (.num 0) "\"a\"")]

example : completions (run (St.init 4 false) demoSteps).2 =
    [({ op := 1, wire := .num 1 }, .response { jsonrpc := true, id := .num 1, payload := .result (lit "\"b\"") }),
     ({ op := 0, wire := .num 0 }, .response { jsonrpc := true, id := .num 0, payload := .result (lit "\"a\"") })] := by
  decide

example : Reachable (run (St.init 4 false) demoSteps).1 := ⟨4, false, demoSteps, rfl⟩

-- the hypotheses of C03.4 are satisfiable: after the two sends, call 0 waits under id 0
example : HasCall (run (St.init 4 false) (demoSteps.take 4)).1.core (.num 0) { op := 0, wire := .num 0 } := by decide

-- typed ids: a string answer "0" does not complete the call that wrote the number 0
example : (step (run (St.init 4 false) (demoSteps.take 4)).1 (.recv (rsp (.str (lit "0")) "1"))).fatal =
    some (.notPending (.str (lit "0"))) := by decide

-- the reserved unsubscribe slot silently swallows a stray response (no call is completed) — see C18
example : (run (St.init 4 false) [.newSubscribe (lit "sub") (lit "unsub"), .sendTask 0, .recv (rsp (.num 1) "1")]).2 =
    [.wire (encodeRequest { id := .num 0, method := lit "sub", params := none })] := by decide

/-! ### C03.x — what is no message completes nothing (also: the bytes of a binary frame that are no UTF-8) -/

/-- A delivery that is no message of any kind — a text none of the four decoders accepts, or (Driver/ClientFamily.lean,
`frameText`) the bytes of a binary frame that are not UTF-8 and hence no JSON text at all — changes nothing and completes
nothing: the read task gives the connection up with `Unparseable`.  In particular no call is ever completed with a
"repaired" reading of such bytes (seeded mutant C03-R7 parsed `String::from_utf8_lossy` of the frame). -/
theorem c03_unparseable_completes_nothing (st : Core) (raw : Text) (hg : classifyIncoming raw = .garbage) :
    handleSingle st raw = { st := st, effs := [], fatal := some .unparseable } := by
  unfold handleSingle
  rw [hg]

/-- … and inside an array: the loop stops at the element, nothing after it is looked at -/
theorem c03_unparseable_element_stops_array (acc : ArrAcc) (e : Text) (rest : List Text)
    (hg : classifyIncoming e = .garbage) : arrayLoop acc (e :: rest) = (acc, some .unparseable) := by
  rw [arrayLoop.eq_def]
  simp only [hg]

end Jrpc.Client
