/-
  C04 — server: a subscription's notifications are its own, ordered, and stop at close.

  All theorems are about every state reachable from any configuration by ANY sequence of the
  atomic operations of Model/SubServer.lean (any number of connections and subscriptions, any
  queue capacity, any interleaving of handler steps, unsubscribe calls, disconnects, server stop,
  writer steps).  `cn.hist = cn.wire ++ cn.queue` is everything ever enqueued on a connection, in
  order: the writer moves the queue head to the wire (`writerStep`), nothing else touches the
  order, so a statement about `hist` is a statement about what the peer receives, in order.

  The frame-level theorems (own / after-response / FIFO / never-accepted / close-once) identify a
  subscription by the id that is on the wire, so they are stated for histories whose id provider
  never repeats an id (`ReachableF`; counter and random providers).  With an id provider that
  re-uses ids the wire cannot tell two generations of an id apart; what C06 proves for that
  setting (the table entry and the sink of the newer generation are untouched by the older one)
  is in Theorems/C06.lean.  The closed-stops theorems hold for every history (`Reachable`).
-/
import JrpcVerif.Proofs.SubServerFrames
namespace Jrpc.SubServer

/-- "closed": by a successful unsubscribe, or because its connection ended (peer gone, or server
stop once the connection has finished) -/
def ClosedSub (st : State) (s : Sub) : Prop := s.unsubscribed = true ∨ ¬ connOpen st s.conn

theorem mem_dataOf {m x p : Nat} {l : List Frame} (h : Frame.data m x p ∈ l) : p ∈ dataOf x l := by
  induction l with
  | nil => simp at h
  | cons f r ih =>
    rcases List.mem_cons.mp h with rfl | h
    · simp [dataOf]
    · have := ih h
      cases f <;> simp [dataOf, this]
      split <;> simp [this]

/-- **C04.1** — every notification on any connection names a subscription of that very connection,
carries its id and its notification method, exists only because the subscription was accepted;
a data notification carries a payload the handler's sink produced, a closing notification exists
only if the subscription's task sent one. -/
theorem c04_own (st : State) (hr : ReachableF st) (c : Nat) (cn : Conn) (hc : st.conns[c]? = some cn)
    (f : Frame) (hf : f ∈ cn.hist) (x : Nat) (hx : f.notifSid = some x) :
    ∃ s ∈ st.subs, s.subId = x ∧ s.conn = c ∧ s.phase = .accepted ∧ f.fits s = true ∧
      (∀ m p, f = .data m x p → p ∈ s.produced) ∧ (f.isCloseFor x = true → s.closeSent = true) := by
  have inv4 := reachableF_inv4 hr
  have hH : histAt st c = some cn.hist := by simp [histAt, hc]
  have ho : f.owned = true := by cases f <;> simp_all [Frame.notifSid, Frame.owned]
  obtain ⟨s, hs, hfit, hconn, hacc⟩ := inv4.frames c _ hH f hf ho
  have hxs := fits_sid hfit x hx
  refine ⟨s, hs, hxs.symm, hconn, hacc, hfit, ?_, ?_⟩
  · intro m p e
    subst e
    have := inv4.fifo s hs cn.hist (by rw [hconn]; exact hH)
    rw [← this, ← hxs]
    exact mem_dataOf hf
  · intro hcl
    have hcnt := inv4.closes s hs cn.hist (by rw [hconn]; exact hH)
    have : closeCount s.subId cn.hist > 0 := by
      simp only [closeCount, List.countP_pos_iff]
      exact ⟨f, hf, by rw [← hxs]; exact hcl⟩
    cases hcs : s.closeSent with
    | true => rfl
    | false => rw [hcs] at hcnt; simp at hcnt; omega

/-- **C04.2** — in the order of its connection every notification of a subscription comes after
the response that accepted that subscription (the response to its own subscribe call). -/
theorem c04_after_response (st : State) (hr : ReachableF st) (c : Nat) (cn : Conn)
    (hc : st.conns[c]? = some cn) (pre post : List Frame) (f : Frame) (hsplit : cn.hist = pre ++ f :: post)
    (x : Nat) (hx : f.notifSid = some x) :
    ∃ s ∈ st.subs, s.subId = x ∧ s.conn = c ∧ Frame.resp s.reqId x ∈ pre := by
  have inv4 := reachableF_inv4 hr
  have hH : histAt st c = some cn.hist := by simp [histAt, hc]
  obtain ⟨rid, hrid⟩ := inv4.order c _ hH pre f post hsplit x hx
  have hmem : Frame.resp rid x ∈ cn.hist := by rw [hsplit]; simp [hrid]
  obtain ⟨s, hs, hfit, hconn, _⟩ := inv4.frames c _ hH _ hmem rfl
  simp only [Frame.fits, Bool.and_eq_true, beq_iff_eq] at hfit
  exact ⟨s, hs, hfit.1.symm, hconn, by rw [← hfit.2]; exact hrid⟩

/-- **C04.3** — FIFO: on its connection the data notifications of a subscription are exactly the
payloads its sink produced (successful sends), in the order they were produced. -/
theorem c04_fifo (st : State) (hr : ReachableF st) (s : Sub) (hs : s ∈ st.subs) (cn : Conn)
    (hc : st.conns[s.conn]? = some cn) : dataOf s.subId (cn.wire ++ cn.queue) = s.produced :=
  (reachableF_inv4 hr).fifo s hs cn.hist (by simp [histAt, hc])

/-- C04.3, the meaning of `produced`: in any step the list changes only by a `send` on that very
subscription that returned ok, which appends its payload; and such a send does append it. -/
theorem c04_produced_only_by_send (st : State) (op : Op) (k : Nat) (s : Sub) (hs : st.subs[k]? = some s) :
    ∃ s', (step st op).1.subs[k]? = some s' ∧
      (s'.produced = s.produced ∨
        ∃ p, (op = .send k p ∨ op = .sendResume k p) ∧ (step st op).2 = .ok ∧
          s'.produced = s.produced ++ [p]) := by
  obtain ⟨s', h1, h2⟩ := sub_persist op hs
  exact ⟨s', h1, h2.prod⟩

theorem c04_send_ok_appends (st : State) (k p : Nat) (h : (step st (.send k p)).2 = .ok) :
    ∃ s s', st.subs[k]? = some s ∧ (step st (.send k p)).1.subs[k]? = some s' ∧
      s'.produced = s.produced ++ [p] := by
  simp only [step, doSend] at h ⊢
  split at h
  · simp at h
  · rename_i s cn hl
    obtain ⟨hs, _⟩ := lookup_some hl
    have hk : k < st.subs.length := by
      rcases List.getElem?_eq_some_iff.mp hs with ⟨hh, _⟩; exact hh
    split at h
    · simp at h
    · split at h
      · simp at h
      · split at h
        · simp at h
        · rename_i h1 h2 h3
          refine ⟨s, { s with produced := s.produced ++ [p] }, hs, ?_, rfl⟩
          simp [h1, h2, h3, put, hk]

/-- the history of a connection only ever grows at its end (nothing enqueued is retracted or
reordered), a closed connection stays closed -/
theorem c04_history_append_only (st : State) (op : Op) (c : Nat) (cn : Conn) (hc : st.conns[c]? = some cn) :
    ∃ cn', (step st op).1.conns[c]? = some cn' ∧ (∃ fs, cn'.hist = cn.hist ++ fs) ∧
      (cn.isOpen = false → cn'.isOpen = false) := by
  obtain ⟨cn', h1, h2⟩ := conn_persist op hc
  exact ⟨cn', h1, h2.hist, h2.closed⟩

/-- **C04.4** — a subscription that was never accepted (rejected, dropped while pending, accept
failed, still pending) has no frame of its own anywhere: no accept response, no notification, and
its closing value is discarded. -/
theorem c04_never_accepted (st : State) (hr : ReachableF st) (s : Sub) (hs : s ∈ st.subs)
    (hna : s.phase ≠ .accepted) (c : Nat) (cn : Conn) (hc : st.conns[c]? = some cn) :
    (∀ f ∈ cn.hist, f.notifSid ≠ some s.subId) ∧ (∀ rid, Frame.resp rid s.subId ∉ cn.hist) ∧
      s.closeSent = false ∧ s.produced = [] := by
  have inv := reachable_inv (reachableF_reachable hr)
  have inv4 := reachableF_inv4 hr
  have hH : histAt st c = some cn.hist := by simp [histAt, hc]
  have key : ∀ f ∈ cn.hist, f.owned = true → ∀ t, f.fits t = true → t.subId = s.subId → False := by
    intro f hf ho t _ _
    obtain ⟨s2, hs2, hfit2, _, hacc2⟩ := inv4.frames c _ hH f hf ho
    have e : s2.subId = s.subId := by
      cases f <;> simp_all [Frame.fits, Frame.owned]
    obtain ⟨i, hi⟩ := List.mem_iff_getElem?.mp hs2
    obtain ⟨j, hj⟩ := List.mem_iff_getElem?.mp hs
    have := inv4.uniq i j s2 s hi hj e
    subst this
    rw [hi] at hj; cases hj
    exact hna hacc2
  refine ⟨?_, ?_, ?_, ?_⟩
  · intro f hf e
    have ho : f.owned = true := by cases f <;> simp_all [Frame.notifSid, Frame.owned]
    obtain ⟨s2, _, hfit2, _, _⟩ := inv4.frames c _ hH f hf ho
    exact key f hf ho s2 hfit2 (fits_sid hfit2 _ e).symm
  · intro rid hmem
    obtain ⟨s2, _, hfit2, _, _⟩ := inv4.frames c _ hH _ hmem rfl
    refine key _ hmem rfl s2 hfit2 ?_
    simp only [Frame.fits, Bool.and_eq_true, beq_iff_eq] at hfit2
    exact hfit2.1.symm
  · exact ((inv.subOk s hs).notAcc hna).2.2.2.1
  · cases hcn : st.conns[s.conn]? with
    | none =>
      have := inv.connOk s hs
      rw [List.getElem?_eq_none_iff] at hcn
      omega
    | some cn2 =>
      have hf := inv4.fifo s hs cn2.hist (by simp [histAt, hcn])
      rw [← hf]
      have hH2 : histAt st s.conn = some cn2.hist := by simp [histAt, hcn]
      refine dataOf_nil_of_no_notif _ _ ?_
      intro f hf e
      have ho : f.owned = true := by cases f <;> simp_all [Frame.notifSid, Frame.owned]
      obtain ⟨s2, hs2, hfit2, _, hacc2⟩ := inv4.frames _ _ hH2 f hf ho
      have e2 : s2.subId = s.subId := (fits_sid hfit2 _ e).symm
      obtain ⟨i, hi⟩ := List.mem_iff_getElem?.mp hs2
      obtain ⟨j, hj⟩ := List.mem_iff_getElem?.mp hs
      have := inv4.uniq i j s2 s hi hj e2
      subst this
      rw [hi] at hj; cases hj
      exact hna hacc2

/-- **C04.5a** — once closed, the handler's sink reports closed -/
theorem c04_closed_reports (st : State) (k : Nat) (s : Sub) (cn : Conn) (hl : lookup st k = some (s, cn))
    (hsink : s.clones > 0) (hr : Reachable st) (hcl : ClosedSub st s) :
    step st (.isClosed k) = (st, .bool true) := by
  have inv := reachable_inv hr
  obtain ⟨hs, hc⟩ := lookup_some hl
  have hne : (s.clones == 0) = false := by simp; omega
  simp only [step, doIsClosed, hl, hne]
  rcases hcl with hu | hno
  · have : s.inTable = false := by
      cases hi : s.inTable with
      | false => rfl
      | true => have := ((inv.subOk s (lookup_mem hl)).table.mp hi).2.1; rw [hu] at this; cases this
    simp [this]
  · have : cn.isOpen = false := by
      cases ho : cn.isOpen with
      | false => rfl
      | true => exact absurd ⟨cn, hc, ho⟩ hno
    simp [this]

/-- **C04.5b** — once closed, a send fails and nothing is enqueued (the state does not change) -/
theorem c04_closed_send_fails (st : State) (k p : Nat) (s : Sub) (cn : Conn) (hl : lookup st k = some (s, cn))
    (hsink : s.clones > 0) (hr : Reachable st) (hcl : ClosedSub st s) :
    step st (.send k p) = (st, .err) := by
  have inv := reachable_inv hr
  obtain ⟨hs, hc⟩ := lookup_some hl
  have hne : (s.clones == 0) = false := by simp; omega
  simp only [step, doSend, hl, hne]
  rcases hcl with hu | hno
  · have : s.inTable = false := by
      cases hi : s.inTable with
      | false => rfl
      | true => have := ((inv.subOk s (lookup_mem hl)).table.mp hi).2.1; rw [hu] at this; cases this
    simp [this]
  · have : cn.isOpen = false := by
      cases ho : cn.isOpen with
      | false => rfl
      | true => exact absurd ⟨cn, hc, ho⟩ hno
    simp [this]

/-- **C04.5c** — closed is for ever: no operation reopens a subscription -/
theorem c04_closed_stable (st : State) (op : Op) (k : Nat) (s : Sub) (hs : st.subs[k]? = some s)
    (hr : Reachable st) (hcl : ClosedSub st s) :
    ∃ s', (step st op).1.subs[k]? = some s' ∧ ClosedSub (step st op).1 s' := by
  have inv := reachable_inv hr
  obtain ⟨s', h1, rel⟩ := sub_persist op hs
  refine ⟨s', h1, ?_⟩
  rcases hcl with hu | hno
  · exact Or.inl (rel.unsub hu)
  · right
    rintro ⟨cn', hc', ho'⟩
    rw [rel.conn] at hc'
    have hlen := inv.connOk s (List.mem_iff_getElem?.mpr ⟨k, hs⟩)
    cases hcn : st.conns[s.conn]? with
    | none => rw [List.getElem?_eq_none_iff] at hcn; omega
    | some cn =>
      obtain ⟨cn2, hc2, crel⟩ := conn_persist op hcn
      rw [hc2] at hc'; cases hc'
      cases ho : cn.isOpen with
      | true => exact hno ⟨cn, hcn, ho⟩
      | false => rw [crel.closed ho] at ho'; cases ho'

/-- **C04.5d** — a send that was parked on a full queue (it had passed its closed check, so it
*started before* any later close) and is resumed after the connection ended fails and enqueues
nothing; resumed while the connection is open it is delivered in order (`c04_fifo` covers
`sendResume` like `send`: both only append to `produced`). -/
theorem c04_resume_after_conn_end_fails (st : State) (k p : Nat) (s : Sub) (cn : Conn)
    (hl : lookup st k = some (s, cn)) (hsink : s.clones > 0) (hc : cn.isOpen = false) :
    step st (.sendResume k p) = (st, .err) := by
  have hne : (s.clones == 0) = false := by simp; omega
  simp [step, doSendResume, hl, hne, hc]

/-- closedness along whole runs: after any further operations the sink still reports closed and
sends still fail -/
theorem c04_closed_stops (ops : List Op) : ∀ (st : State), Reachable st → ∀ (k : Nat) (s : Sub),
    st.subs[k]? = some s → ClosedSub st s →
    ∃ s', (run st ops).subs[k]? = some s' ∧ ClosedSub (run st ops) s' := by
  induction ops with
  | nil => intro st _ k s hs hcl; exact ⟨s, hs, hcl⟩
  | cons op r ih =>
    intro st hr k s hs hcl
    obtain ⟨s1, h1, c1⟩ := c04_closed_stable st op k s hs hr hcl
    exact ih _ (reachable_step hr op) k s1 h1 c1

/-- an unsubscribe that answered true closes the subscription it named; a connection that ended
closes all of its subscriptions (both directly from the definitions; stated for the record) -/
theorem c04_conn_end_closes (st : State) (c : Nat) (cn : Conn) (hc : st.conns[c]? = some cn) :
    ∀ s' ∈ (step st (.connClose c)).1.subs, s'.conn = c → ClosedSub (step st (.connClose c)).1 s' := by
  intro s' _ hc'
  right
  rintro ⟨cn2, h2, ho⟩
  have hlen : c < st.conns.length := by
    rcases List.getElem?_eq_some_iff.mp hc with ⟨hh, _⟩; exact hh
  simp [step, doConnClose, putConn, hc', hlen] at h2
  subst h2
  simp at ho

/-- **C04.6** — at most one closing notification per subscription id on any connection, and if
there is one, the subscription lives on that connection, was accepted, and its task sent it. -/
theorem c04_close_once (st : State) (hr : ReachableF st) (c : Nat) (cn : Conn) (hc : st.conns[c]? = some cn)
    (x : Nat) :
    closeCount x cn.hist ≤ 1 ∧
      (closeCount x cn.hist = 1 → ∃ s ∈ st.subs, s.subId = x ∧ s.conn = c ∧ s.phase = .accepted ∧
        s.closeSent = true ∧ s.handlerDone = true) := by
  have inv := reachable_inv (reachableF_reachable hr)
  have inv4 := reachableF_inv4 hr
  have hH : histAt st c = some cn.hist := by simp [histAt, hc]
  by_cases h0 : closeCount x cn.hist = 0
  · simp [h0]
  · have hpos : closeCount x cn.hist > 0 := by omega
    simp only [closeCount, List.countP_pos_iff] at hpos
    obtain ⟨f, hf, hcl⟩ := hpos
    have ho : f.owned = true := by cases f <;> simp_all [Frame.isCloseFor, Frame.owned]
    have hx : f.notifSid = some x := by
      cases f <;> simp_all [Frame.isCloseFor, Frame.notifSid]
    obtain ⟨s, hs, hfit, hconn, hacc⟩ := inv4.frames c _ hH f hf ho
    have hxs := fits_sid hfit x hx
    have hcnt := inv4.closes s hs cn.hist (by rw [hconn]; exact hH)
    rw [← hxs] at hcnt
    cases hcs : s.closeSent with
    | false => rw [hcs] at hcnt; simp at hcnt; omega
    | true =>
      rw [hcs] at hcnt
      simp at hcnt
      refine ⟨by omega, fun _ => ⟨s, hs, hxs.symm, hconn, hacc, hcs, ?_⟩⟩
      exact (inv.subOk s hs).closeHandler hcs

/-! ### non-vacuity -/

section Examples

/-- two subscriptions on one connection, interleaved sends, unsubscribe of the first, handler
returns of both (error / value), a rejected third one whose handler "returned" a value -/
def demoOps : List Op :=
  [.subscribe 0 0 1 1, .subscribe 0 1 2 2, .accept 0, .send 0 10, .accept 1, .send 1 20, .send 0 11,
   .writerStep 0, .writerStep 0, .unsubscribe 0 0 1 3, .send 0 12, .send 1 21,
   .handlerReturn 0 (.err 7), .taskStep 0, .handlerReturn 1 (.notif 1001), .taskStep 1, .taskStep 1,
   .subscribe 0 0 4 3, .handlerReturn 2 (.notif 1002), .reject 2 (-1), .taskStep 2]
def demo : State := run (init [(3, 64)]) demoOps

-- the id provider of this history never repeats an id: the frame theorems apply to `demo`
example : FreshRun (init [(3, 64)]) demoOps := by decide

example : (demo.conns.map Conn.hist) =
    [[.resp 1 1, .data 0 1 10, .resp 2 2, .data 1 2 20, .data 0 1 11, .unsub 3 true, .data 1 2 21,
      .closeErr 0 1 7, .closeOk 1 2 1001, .err 4 (-1)]] := by decide
example : (demo.subs.map Sub.produced) = [[10, 11], [20, 21], []] := by decide
example : outs (init [(3, 64)]) demoOps =
    [.pending 1, .pending 2, .ok, .ok, .ok, .ok, .ok, .frame (.resp 1 1), .frame (.data 0 1 10), .bool true,
     .err, .ok, .done, .done, .done, .done, .idle, .pending 3, .done, .done, .idle] := by decide
-- the hypotheses of the closed-stops theorems are met: sub 0 is unsubscribed, still holds a sink
example : (lookup demo 0).map (fun p => (decide (p.1.clones > 0), p.1.unsubscribed)) = some (true, true) := by
  decide
example : ∃ s, demo.subs[2]? = some s ∧ s.phase ≠ .accepted := by decide
example : closeCount 1 ((demo.conns.map Conn.hist).headD []) = 1 := by decide
-- a connection that ended: sends fail, nothing is enqueued, a pending accept fails
example : outs (init [(2, 8)]) [.subscribe 0 0 1 1, .accept 0, .subscribe 0 0 2 2, .connClose 0, .send 0 5,
      .isClosed 0, .accept 1, .handlerReturn 0 (.notif 1001), .taskStep 0, .writerStep 0]
    = [.pending 1, .ok, .pending 2, .done, .err, .bool true, .err, .done, .done, .empty] := by decide
-- server stop: a connection with a pending subscribe call finishes only once the call is answered
example : outs (init [(2, 8)]) [.subscribe 0 0 1 1, .stop, .connFinish 0, .subscribe 0 0 2 2, .accept 0,
      .connFinish 0, .send 0 5]
    = [.pending 1, .done, .idle, .ignored, .ok, .done, .err] := by decide
-- a send parked on the full queue: resumed by a writer step it is delivered, resumed after the
-- connection ended it fails
example : outs (init [(2, 1)]) [.subscribe 0 0 1 1, .accept 0, .send 0 5, .sendResume 0 5, .writerStep 0,
      .sendResume 0 5, .connClose 0, .sendResume 0 6]
    = [.pending 1, .ok, .blocked, .blocked, .frame (.resp 1 1), .ok, .done, .err] := by decide
-- a method registered with register_subscription_raw (method index 2): no handler future, no closing
-- notification
example : outs (init [(2, 8)]) [.subscribe 0 2 1 1, .handlerReturn 0 (.notif 1001), .accept 0, .taskStep 0,
      .send 0 5, .writerStep 0, .writerStep 0, .writerStep 0]
    = [.pending 1, .gone, .ok, .idle, .ok, .frame (.resp 1 1), .frame (.data 2 1 5), .empty] := by decide
-- bounded queue: a full queue blocks the step (state unchanged), a writer step makes room
example : outs (init [(2, 1)]) [.subscribe 0 0 1 1, .accept 0, .send 0 5, .writerStep 0, .send 0 5]
    = [.pending 1, .ok, .blocked, .frame (.resp 1 1), .ok] := by decide

end Examples

end Jrpc.SubServer
