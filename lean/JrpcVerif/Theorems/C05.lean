/-
  C05 — client: a subscription stream yields exactly its own notifications, in order.

  Channels (`Chan`) carry ghost logs: `sent` = every payload the read task handed to the channel's
  sender (i.e. of a notification routed to it), `accepted` = those `send` took, `yielded` = those
  `next` returned; `gapped` = something was accepted after an earlier payload had been refused
  (impossible since /repo f2384ab: a lagged sender refuses everything — `c05_no_gap`).
  `Reachable st` = reached from a fresh client by **any** finite sequence of atomic steps.
-/
import JrpcVerif.Proofs.ClientSlotLemmas
import JrpcVerif.Model.ClientTyped
namespace Jrpc.Client
open Jrpc

/-! ### C05.1 — the stream is a prefix of what was sent for it; nothing foreign ever enters -/

/-- full statement: what a stream yielded is always a prefix of what was sent for it -/
def c05_prefix_statement : Prop :=
  ∀ st, Reachable st → ∀ ch ∈ st.core.chans, ch.yielded <+: ch.sent

/-- … and it holds, for every channel of every reachable state (F-14 fixed) -/
theorem c05_prefix : c05_prefix_statement := by
  intro st hr ch hc
  have h := (sinv_reachable st hr).chans ch hc
  exact List.IsPrefix.trans h.yieldedPrefix h.prefixSent

/-- nothing is ever accepted behind a refused payload -/
theorem c05_no_gap (st : St) (hr : Reachable st) (ch : Chan) (hc : ch ∈ st.core.chans) : ch.gapped = false :=
  ((sinv_reachable st hr).chans ch hc).noGap

/-- order and completeness inside the client: FIFO, nothing accepted is lost or reordered, and as
long as the consumer keeps up (`lagged = false`) everything sent is accepted -/
theorem c05_fifo (st : St) (hr : Reachable st) (ch : Chan) (hc : ch ∈ st.core.chans) :
    ch.yielded <+: ch.accepted ∧ (ch.receiverAlive = true → ch.accepted = ch.yielded ++ ch.buf) ∧
    (ch.lagged = false → ch.receiverAlive = true → ch.accepted = ch.sent) := by
  have h := (sinv_reachable st hr).chans ch hc
  exact ⟨h.yieldedPrefix, h.fifo, h.noLoss⟩

/-- only its own: whatever an incoming text pushes into channel `c` is the payload of a
notification *element of that text* (the text itself or an element of the array) that names the
subscription id — resp. the method — the channel was created for -/
theorem c05_only_own (st : St) (hr : Reachable st) (raw : Text) (c : ChanId) (q : Text)
    (h : Effect.push c q ∈ (step st (.recv raw)).effs) :
    ∃ e, (e = raw ∨ ∃ es, elements raw = some es ∧ e ∈ es) ∧ OwnNotif (step st (.recv raw)).st.core e c q := by
  have hc : CInv st.core := sinv_reachable st hr
  rw [mem_pushes] at h
  simp only [step] at h ⊢
  unfold handleBack at h ⊢
  cases hf : firstNonWs raw with
  | none => simp [hf, pushes] at h
  | some ch =>
    simp only [hf] at h ⊢
    cases c1 : (ch == 123) with
    | true =>
      simp only [c1, if_true] at h ⊢
      refine ⟨raw, Or.inl rfl, ?_⟩
      unfold handleSingle at h ⊢
      cases hcl : classifyIncoming raw with
      | response r =>
        simp only [hcl] at h ⊢
        cases hp : processSingleResponse st.core r with
        | error f => simp [hp, pushes] at h
        | ok x =>
          obtain ⟨st', effs⟩ := x
          simp only [hp] at h
          rw [processSingleResponse_pushes st.core st' r effs hp] at h
          simp at h
      | garbage => simp [hcl, pushes] at h
      | subNotif s p =>
        simp only [hcl] at h ⊢
        obtain ⟨e1, e2⟩ := processSubscriptionResponse_pushes st.core s p hc.routes c q h
        subst e1
        exact Or.inl ⟨s, hcl, ownerStable_processSubscriptionResponse st.core s q c _ e2⟩
      | subClose s => simp [hcl, pushes] at h
      | notif m ps =>
        simp only [hcl] at h ⊢
        obtain ⟨e1, e2⟩ := processNotification_pushes st.core m ps hc.routes c q h
        exact Or.inr ⟨m, ps, hcl, e1, ownerStable_processNotification st.core m ps c _ e2⟩
    | false =>
      simp only [c1, Bool.false_eq_true, if_false] at h ⊢
      cases c2 : (ch == 91) with
      | false => simp [c2, pushes] at h
      | true =>
        simp only [c2, if_true] at h ⊢
        cases he : elements raw with
        | none => simp [he, pushes] at h
        | some es =>
          simp only [he] at h ⊢
          obtain ⟨e, hes, ho⟩ := handleArray_pushes st.core es hc c q h
          exact ⟨e, Or.inr ⟨es, rfl, hes⟩, ho⟩

/-! ### C05.2 — packing makes no difference -/

/-- an array of notification-like messages has exactly the effect — on every table, every channel
and every queued unsubscribe — of the same messages handled one by one as single messages -/
theorem c05_packing_irrelevant (st : Core) (es : List Text) (hne : es ≠ [])
    (hn : ∀ e ∈ es, isNotifLike (classifyIncoming e) = true) :
    (handleArray st es).st = (seqSingles st es).1 ∧ (handleArray st es).effs = (seqSingles st es).2 ∧
    (handleArray st es).fatal = none := by
  unfold handleArray
  rw [arrayLoop_notifs es hn]
  have : es.isEmpty = false := by cases es <;> simp_all
  simp [arrayFinish, this]

/-- … at the level of raw texts: an array text versus its element texts -/
theorem c05_packing_irrelevant_texts (st : Core) (raw : Text) (es : List Text)
    (h91 : firstNonWs raw = some 91) (hel : elements raw = some es) (hne : es ≠ [])
    (hn : ∀ e ∈ es, isNotifLike (classifyIncoming e) = true) :
    (handleBack st raw).st = (seqSingles st es).1 ∧ (handleBack st raw).effs = (seqSingles st es).2 ∧
    (handleBack st raw).fatal = none := by
  unfold handleBack
  simp only [h91, hel]
  exact c05_packing_irrelevant st es hne hn

/-- a single object text is handled by `handleSingle` -/
theorem c05_single_text (st : Core) (e : Text) (h : firstNonWs e = some 123) : handleBack st e = handleSingle st e := by
  unfold handleBack; simp [h]

/-! ### C05.3 — when a stream ends, and why -/

/-- a subscription stream's sender is dropped only by a close/error notification naming it or by
`RequestManager::unsubscribe` (consumer unsubscribe / drop / closure after lag or closed receiver) -/
theorem c05_end_causes (st : St) (hr : Reachable st) (ch : Chan) (hc : ch ∈ st.core.chans) (s : SubId)
    (ho : ch.owner = .sub s) (hd : ch.senderAlive = false) : ch.closedByServer = true ∨ ch.unsubscribed = true :=
  ((sinv_reachable st hr).chans ch hc).subEnd s ho hd

/-- `close_reason() = Lagged` exactly when some `try_send` found the buffer full -/
theorem c05_lagged_iff_full (st : St) (hr : Reachable st) (ch : Chan) (hc : ch ∈ st.core.chans) :
    ch.lagged = true ↔ 0 < ch.fullSeen :=
  ((sinv_reachable st hr).chans ch hc).laggedIff

/-- `next` reports the end exactly when the sender is gone and the buffer is drained -/
theorem c05_next_ends (st : St) (c : ChanId) (l : Bool) :
    (step st (.next c)).out = .ended l ↔
      ∃ ch, st.core.chans[c]? = some ch ∧ ch.receiverAlive = true ∧ ch.buf = [] ∧ ch.senderAlive = false ∧ l = ch.lagged := by
  simp only [step]
  cases hg : st.core.chans[c]? with
  | none => simp
  | some ch =>
    simp only
    cases hra : ch.receiverAlive with
    | false => simp [hra]
    | true =>
      simp only [Bool.not_true, Bool.false_eq_true, if_false]
      cases hb : ch.buf with
      | cons p rest => simp [hb]
      | nil =>
        simp only
        cases hs : ch.senderAlive with
        | true => simp [hb, hs]
        | false =>
          simp only [Bool.false_eq_true, if_false, StepOut.ended.injEq]
          constructor
          · intro e; exact ⟨ch, rfl, hra, hb, hs, e.symm⟩
          · intro ⟨ch', e1, _, _, _, e5⟩; simp at e1; subst e1; exact e5.symm

/-! ### C05.4 — the unsubscribe request: never twice, and sent when the closure is processed -/

theorem c05_unsub_once (st : St) (hr : Reachable st) (ch : Chan) (hc : ch ∈ st.core.chans) :
    ch.unsubWires ≤ 1 ∧ (ch.unsubWires = 1 → ch.unsubscribed = true) :=
  ⟨((slive_reachable st hr).wires ch hc).le, ((slive_reachable st hr).wires ch hc).one⟩

/-- when the send task processes `SubscriptionClosed(s)` — queued by an explicit unsubscribe, by a
drop that found room, or by the read task after lag / closed receiver — while `s` is still active,
it writes exactly one unsubscribe request, naming `s` and carrying the reserved unsubscribe id, and
forgets the subscription (so a second `SubscriptionClosed(s)` writes nothing) -/
theorem c05_unsub_sent (st : St) (hr : Reachable st) (s : SubId) (rid : Id)
    (hs : alookup s st.core.mgr.subs = some rid) :
    ∃ uid c um, alookup rid st.core.mgr.requests = some (.sub uid c um) ∧
      (handleFront st.core (.subscriptionClosed s)).2 = [.wire (unsubRaw uid um s)] ∧
      alookup s (handleFront st.core (.subscriptionClosed s)).1.mgr.subs = none ∧
      (handleFront (handleFront st.core (.subscriptionClosed s)).1 (.subscriptionClosed s)).2 = [] := by
  obtain ⟨uid, c, um, h1, _⟩ := (sinv_reachable st hr).routes.subs s rid hs
  refine ⟨uid, c, um, h1, ?_⟩
  have hu : st.core.mgr.unsubscribe rid s = some (unsubMgr st.core.mgr rid uid s c, uid, c, um) := by
    unfold Mgr.unsubscribe unsubMgr; simp [h1, hs]
  have hb : buildUnsubscribeMessage st.core rid s =
      some (({ st.core with mgr := unsubMgr st.core.mgr rid uid s c }).modChan c
              (fun ch => { dropSender ch with unsubscribed := true }), .request uid none (unsubRaw uid um s)) := by
    unfold buildUnsubscribeMessage; rw [hu]
  have ha : st.core.mgr.asSubscription rid = some c := by unfold Mgr.asSubscription; rw [h1]
  have hf : handleFront st.core (.subscriptionClosed s) =
      ((({ st.core with mgr := unsubMgr st.core.mgr rid uid s c }).modChan c
              (fun ch => { dropSender ch with unsubscribed := true })).modChan c
              (fun ch => { ch with unsubWires := ch.unsubWires + 1 }), [.wire (unsubRaw uid um s)]) := by
    unfold handleFront
    simp only [Mgr.getRequestIdBySubscriptionId, hs, ha, hb]
  rw [hf]
  have hsubs : (unsubMgr st.core.mgr rid uid s c).subs = aerase s st.core.mgr.subs := (unsubMgr_others _ _ _ _ _).1
  refine ⟨rfl, ?_, ?_⟩
  · simp only [modChan_mgr, hsubs]; exact alookup_aerase_self s _
  · unfold handleFront
    simp only [Mgr.getRequestIdBySubscriptionId, modChan_mgr, hsubs, alookup_aerase_self]

/-! ### witnesses -/

-- texts as explicit code-point lists (kernel evaluation of long `String` literals is very slow)
/-- `{"jsonrpc":"2.0","id":0,"result":"S"}` -/
def tAccept : Text := [123, 34, 106, 115, 111, 110, 114, 112, 99, 34, 58, 34, 50, 46, 48, 34, 44, 34, 105, 100, 34, 58, 48, 44, 34, 114, 101, 115, 117, 108, 116, 34, 58, 34, 83, 34, 125]
/-- `{"jsonrpc":"2.0","method":"sub","params":{"subscription":"S","result":1}}` -/
def tPush1 : Text := [123, 34, 106, 115, 111, 110, 114, 112, 99, 34, 58, 34, 50, 46, 48, 34, 44, 34, 109, 101, 116, 104, 111, 100, 34, 58, 34, 115, 117, 98, 34, 44, 34, 112, 97, 114, 97, 109, 115, 34, 58, 123, 34, 115, 117, 98, 115, 99, 114, 105, 112, 116, 105, 111, 110, 34, 58, 34, 83, 34, 44, 34, 114, 101, 115, 117, 108, 116, 34, 58, 49, 125, 125]
/-- `{"jsonrpc":"2.0","method":"sub","params":{"subscription":"S","result":2}}` -/
def tPush2 : Text := [123, 34, 106, 115, 111, 110, 114, 112, 99, 34, 58, 34, 50, 46, 48, 34, 44, 34, 109, 101, 116, 104, 111, 100, 34, 58, 34, 115, 117, 98, 34, 44, 34, 112, 97, 114, 97, 109, 115, 34, 58, 123, 34, 115, 117, 98, 115, 99, 114, 105, 112, 116, 105, 111, 110, 34, 58, 34, 83, 34, 44, 34, 114, 101, 115, 117, 108, 116, 34, 58, 50, 125, 125]
/-- `{"jsonrpc":"2.0","method":"sub","params":{"subscription":"S","result":3}}` -/
def tPush3 : Text := [123, 34, 106, 115, 111, 110, 114, 112, 99, 34, 58, 34, 50, 46, 48, 34, 44, 34, 109, 101, 116, 104, 111, 100, 34, 58, 34, 115, 117, 98, 34, 44, 34, 112, 97, 114, 97, 109, 115, 34, 58, 123, 34, 115, 117, 98, 115, 99, 114, 105, 112, 116, 105, 111, 110, 34, 58, 34, 83, 34, 44, 34, 114, 101, 115, 117, 108, 116, 34, 58, 51, 125, 125]
/-- `{"jsonrpc":"2.0","method":"sub","params":{"subscription":"S","error":"bye"}}` -/
def tClose : Text := [123, 34, 106, 115, 111, 110, 114, 112, 99, 34, 58, 34, 50, 46, 48, 34, 44, 34, 109, 101, 116, 104, 111, 100, 34, 58, 34, 115, 117, 98, 34, 44, 34, 112, 97, 114, 97, 109, 115, 34, 58, 123, 34, 115, 117, 98, 115, 99, 114, 105, 112, 116, 105, 111, 110, 34, 58, 34, 83, 34, 44, 34, 101, 114, 114, 111, 114, 34, 58, 34, 98, 121, 101, 34, 125, 125]

/-- F-14: capacity 1, the send task does not get to run; pushes 1,2 (2 is refused: lag, closure
queued), the consumer reads 1, push 3 is accepted, the consumer reads 3 -/
def gapSteps : List Step :=
  [ .newSubscribe [115, 117, 98] [117, 110, 115, 117, 98], .sendTask 0,
    .recv tAccept, .recv tPush1, .recv tPush2, .next 0, .recv tPush3, .next 0 ]

/-- the pre-fix gap history on the fixed code: 3 is refused, the stream yields 1 and then ends as lagged -/
theorem gap_history_now : ((run (St.init 1 false) gapSteps).1.core.chans.map (fun ch => (ch.yielded, ch.sent, ch.gapped, ch.lagged, ch.buf))) =
    [([[49]], [[49], [50], [51]], false, true, [])] := by decide

-- non-vacuity: the stream really yields (a run that reads everything it is sent while it keeps up)
example : ((run (St.init 2 false) [.newSubscribe [115, 117, 98] [117, 110, 115, 117, 98], .sendTask 0, .recv tAccept, .recv tPush1,
      .recv tPush2, .next 0, .next 0]).1.core.chans.map (fun ch => (ch.yielded, ch.sent))) = [([[49], [50]], [[49], [50]])] := by decide

-- F-8 (fixed): a close notification inside an array ends the stream exactly like the single message
example :
    let st0 := (run (St.init 2 false) (gapSteps.take 3)).1.core
    ((handleArray st0 [tClose]).st.chans.map (·.senderAlive), (handleSingle st0 tClose).st.chans.map (·.senderAlive)) =
      ([false], [false]) := by decide

/-! ### C05.6 — typed streams: one item (`Ok` or `Err`) per notification, in order, nothing skipped -/

/-- exactly one stream item per payload taken from the channel -/
theorem c05_typed_one_item_per_notification {ρ : Type} (δ : Text → Option ρ) (ps : List Text) :
    (typedItems δ ps).length = ps.length ∧
    ∀ i : Nat, (typedItems δ ps)[i]? = (ps[i]?).map (typedItem δ) := by
  refine ⟨by simp [typedItems], ?_⟩
  intro i
  simp [typedItems]

/-- a payload that is no value of the item type is an `Err` item at its own position: it is not skipped, and it does
not disturb its neighbours -/
theorem c05_typed_err_item_not_skipped {ρ : Type} (δ : Text → Option ρ) (before after : List Text) (p : Text)
    (hbad : δ p = none) :
    typedItems δ (before ++ p :: after) = typedItems δ before ++ none :: typedItems δ after := by
  simp [typedItems, typedItem, hbad]

/-- the prefix property carries over: what a typed stream has yielded is, item by item, the decode of a prefix of
the payloads that were sent for it — for every channel of every reachable state -/
theorem c05_typed_prefix {ρ : Type} (δ : Text → Option ρ) (st : St) (hr : Reachable st) (ch : Chan)
    (hc : ch ∈ st.core.chans) : typedItems δ ch.yielded <+: typedItems δ ch.sent := by
  obtain ⟨t, ht⟩ := c05_prefix st hr ch hc
  exact ⟨typedItems δ t, by rw [← ht]; simp [typedItems]⟩

/-- one more `next` on the raw channel is one more typed item, the decode of the payload at the head of the buffer -/
theorem c05_typed_next {ρ : Type} (δ : Text → Option ρ) (ys : List Text) (p : Text) :
    typedItems δ (ys ++ [p]) = typedItems δ ys ++ [typedItem δ p] := by
  simp [typedItems]

end Jrpc.Client
