/-
  C05 — known finding `stale-handle-drop-unsubscribes-newer-subscription`, as a witness in the model
  (the model mirrors the code; the same history is corpus/C05/stale-handle-dropped-after-id-reuse.case
  and is replayed on the implementation by every run of the check).

  Stream 0 (capacity 1) falls behind: it is closed for lagging and the client unsubscribes (request 1).
  The server acknowledges and hands the id "S" to the next subscribe (stream 1).  Dropping the HANDLE of
  stream 0 now queues `SubscriptionClosed "S"`; the send task finds "S" registered — for stream 1 — and
  unsubscribes it: a second unsubscribe request for "S" goes out and stream 1's sender is gone although
  the server did not close it and it never lagged.
-/
import JrpcVerif.Theorems.C05
namespace Jrpc.Client
open Jrpc

/-- `{"jsonrpc":"2.0","id":1,"result":true}` -/
def tAck1 : Text := [123, 34, 106, 115, 111, 110, 114, 112, 99, 34, 58, 34, 50, 46, 48, 34, 44, 34, 105, 100, 34, 58, 49, 44, 34, 114, 101, 115, 117, 108, 116, 34, 58, 116, 114, 117, 101, 125]
/-- `{"jsonrpc":"2.0","id":2,"result":"S"}` -/
def tAccept2 : Text := [123, 34, 106, 115, 111, 110, 114, 112, 99, 34, 58, 34, 50, 46, 48, 34, 44, 34, 105, 100, 34, 58, 50, 44, 34, 114, 101, 115, 117, 108, 116, 34, 58, 34, 83, 34, 125]
/-- `{"jsonrpc":"2.0","id":3,"method":"unsub","params":["S"]}` -/
def tUnsub3 : Text := [123, 34, 106, 115, 111, 110, 114, 112, 99, 34, 58, 34, 50, 46, 48, 34, 44, 34, 105, 100, 34, 58, 51, 44, 34, 109, 101, 116, 104, 111, 100, 34, 58, 34, 117, 110, 115, 117, 98, 34, 44, 34, 112, 97, 114, 97, 109, 115, 34, 58, 91, 34, 83, 34, 93, 125]

def wiresOfEffects : List Effect → List Text
  | [] => []
  | .wire t :: r => t :: wiresOfEffects r
  | _ :: r => wiresOfEffects r

def staleDropSteps : List Step :=
  [ .newSubscribe [115, 117, 98] [117, 110, 115, 117, 98], .sendTask 0, .recv tAccept,
    .recv tPush1, .recv tPush2,          -- capacity 1: the second push finds the buffer full (lagged; closure queued)
    .sendTask 0,                         -- the closure is processed: unsubscribe request 1 goes out
    .recv tAck1,
    .newSubscribe [115, 117, 98] [117, 110, 115, 117, 98], .sendTask 0, .recv tAccept2,   -- "S" again, for stream 1
    .dropStream 0 true,                  -- the stale handle of stream 0
    .sendTask 0 ]

/-- what the streams look like at the end: stream 0 lagged; stream 1 — never full, not closed by the
server — has lost its sender all the same -/
theorem stale_drop_kills_newer_stream :
    ((run (St.init 1 false) staleDropSteps).1.core.chans.map
      (fun ch => (ch.lagged, ch.closedByServer, ch.fullSeen, ch.senderAlive))) =
    [(true, false, 1, false), (false, false, 0, false)] := by decide

/-- and the last step put a second unsubscribe request for "S" on the wire -/
theorem stale_drop_second_unsubscribe :
    (wiresOfEffects (step (run (St.init 1 false) (staleDropSteps.take 11)).1 (.sendTask 0)).effs) = [tUnsub3] := by decide

/-- `c05_end_causes` is not contradicted: stream 1's channel *is* marked unsubscribed — by a handle that is not its own -/
example : ((run (St.init 1 false) staleDropSteps).1.core.chans.map (·.unsubscribed)) = [true, true] := by decide

end Jrpc.Client
