/-
  C06 — server: subscription bookkeeping is exact and respects the per-connection cap.

  All theorems are about every state reachable from any configuration (any number of connections,
  any caps incl. 0, any queue sizes) by ANY sequence of the atomic operations of
  Model/SubServer.lean.

  History: finding F-13 (`impl Drop for SubscriptionSink` had no last-clone check, so dropping one
  clone of a sink removed the subscription) was fixed in /repo by 2bde692 (`SubscriptionGuard` shared
  by all clones).  The model's single switch `dropSinkRemovesEntry` now says "only the last handle";
  the full-strength truth table `c06_unsub_truth` is proved outright (via `noOrphan_of_fixed`, whose
  hypothesis is closed by evaluation of that switch).  The pre-fix history is kept in corpus/C06/
  and as `example`s below: a regression makes the correspondence and the oracle fail on it first.
-/
import JrpcVerif.Proofs.SubServerLemmas
namespace Jrpc.SubServer

/-! ### C06.1 — the truth table of unsubscribe -/

/-- the full-strength statement of C06.1 (proved below as `c06_unsub_truth`) -/
def c06_unsub_truth_statement : Prop :=
  ∀ st, ReachableD st → ∀ c m x rid b, (step st (.unsubscribe c m x rid)).2 = .bool b →
    (b = true ↔ ∃ s ∈ st.subs, s.conn = c ∧ s.meth = m ∧ s.subId = x ∧ Active st s)

theorem unsub_out {st : State} {c m x rid : Nat} {b : Bool}
    (h : (step st (.unsubscribe c m x rid)).2 = .bool b) :
    ∃ cn, st.conns[c]? = some cn ∧ cn.isOpen = true ∧ cn.stopping = false ∧
      (b = true ↔ ∃ s ∈ st.subs, tableKey c m x s = true) := by
  simp only [step, doUnsubscribe] at h
  split at h
  · simp at h
  · rename_i cn hc
    split at h
    · simp at h
    · rename_i hopen
      simp at hopen
      split at h
      · simp at h
      · split at h
        · rename_i hf
          simp at h; subst h
          refine ⟨cn, hc, hopen.1, hopen.2, ?_⟩
          simp only [Bool.false_eq_true, false_iff, not_exists, not_and]
          intro s hs
          simpa using findIdx_none hf s hs
        · rename_i k hf
          obtain ⟨s, hs, hp⟩ := findIdx_some hf
          rw [hs] at h
          simp at h; subst h
          refine ⟨cn, hc, hopen.1, hopen.2, ?_⟩
          simp only [true_iff]
          exact ⟨s, List.mem_iff_getElem?.mpr ⟨k, hs⟩, hp⟩

/-- C06.1 for states in which no entry was removed by the drop of a non-last clone (all reachable
states, see `noOrphan_of_fixed`): `unsubscribe(conn, x)` answers true exactly when it names a
subscription currently active on that connection. -/
theorem unsub_truth_of_noOrphan (st : State) (hr : Reachable st) (hno : NoOrphan st)
    (hnd : ∀ s ∈ st.subs, s.displaced = false) (c m x rid : Nat) (b : Bool) (h : (step st (.unsubscribe c m x rid)).2 = .bool b) :
    (b = true ↔ ∃ s ∈ st.subs, s.conn = c ∧ s.meth = m ∧ s.subId = x ∧ Active st s) := by
  have inv := reachable_inv hr
  obtain ⟨cn, hc, hopen, _, hb⟩ := unsub_out h
  rw [hb]
  constructor
  · rintro ⟨s, hs, hk⟩
    simp only [tableKey, sameKey, Bool.and_eq_true, beq_iff_eq] at hk
    obtain ⟨⟨⟨h1, h2⟩, h3⟩, h4⟩ := hk
    have t := ((inv.subOk s hs).table.mp h4)
    exact ⟨s, hs, h1, h2, h3, t.1, t.2.1, t.2.2.1, cn, by rw [h1]; exact hc, hopen⟩
  · rintro ⟨s, hs, h1, h2, h3, ha, hu, hcl, _⟩
    refine ⟨s, hs, ?_⟩
    have : s.inTable = true := (inv.subOk s hs).table.mpr ⟨ha, hu, hcl, hno s hs, hnd s hs⟩
    simp [tableKey, sameKey, h1, h2, h3, this]

/-- an open, not stopping connection with queue room always answers an unsubscribe call -/
theorem c06_unsub_answered (st : State) (c m x rid : Nat) (cn : Conn) (hc : st.conns[c]? = some cn)
    (ho : cn.isOpen = true) (hs : cn.stopping = false) (hroom : cn.hasRoom = true) :
    ∃ b, (step st (.unsubscribe c m x rid)).2 = .bool b := by
  simp only [step, doUnsubscribe, hc, ho, hs, hroom]
  cases hf : findIdx (tableKey c m x) st.subs with
  | none => exact ⟨false, by simp⟩
  | some k =>
    obtain ⟨s, hk, _⟩ := findIdx_some hf
    exact ⟨true, by simp [hk]⟩

/-- "another connection's id": the answer depends only on the records of the calling connection —
if that connection has no subscription under the id, the answer is false, whatever other
connections hold under the same id (ids need only be unique per connection) -/
theorem c06_unsub_foreign (st : State) (c m x rid : Nat)
    (hnone : ∀ t ∈ st.subs, t.conn = c → t.meth = m → t.subId ≠ x) (b : Bool)
    (h : (step st (.unsubscribe c m x rid)).2 = .bool b) : b = false := by
  obtain ⟨cn, _, _, _, hb⟩ := unsub_out h
  cases b with
  | false => rfl
  | true =>
    obtain ⟨s', hs', hk⟩ := hb.mp rfl
    simp only [tableKey, sameKey, Bool.and_eq_true, beq_iff_eq] at hk
    exact absurd hk.1.2 (hnone s' hs' hk.1.1.1 hk.1.1.2)

/-- "already unsubscribed": after an unsubscribe that answered true, the same call answers false -/
theorem c06_unsub_twice (st : State) (hr : Reachable st) (c m x rid rid' : Nat)
    (h : (step st (.unsubscribe c m x rid)).2 = .bool true) (b : Bool)
    (h2 : (step (step st (.unsubscribe c m x rid)).1 (.unsubscribe c m x rid')).2 = .bool b) :
    b = false := by
  have inv := reachable_inv hr
  have inv' := reachable_inv (reachable_step hr (.unsubscribe c m x rid))
  obtain ⟨_, _, _, _, hb2⟩ := unsub_out h2
  cases b with
  | false => rfl
  | true =>
    exfalso
    obtain ⟨s2, hs2, hk2⟩ := hb2.mp rfl
    -- unfold the first step: it rewrote the (unique) entry to `inTable := false`
    simp only [step, doUnsubscribe] at h hs2
    split at h
    · simp at h
    · rename_i cn hc
      simp only [hc] at hs2
      split at h
      · simp at h
      · rename_i hopen
        simp only [hopen] at hs2
        split at h
        · simp at h
        · rename_i hroom
          simp only [hroom] at hs2
          split at h
          · simp at h
          · rename_i k hf
            obtain ⟨s, hk, hp⟩ := findIdx_some hf
            simp only [hf, hk] at hs2
            simp only [put] at hs2
            simp only [tableKey, sameKey, Bool.and_eq_true, beq_iff_eq] at hk2 hp
            obtain ⟨j2, hj2⟩ := List.mem_iff_getElem?.mp hs2
            rcases getElem?_set_cases hj2 with ⟨_, e2⟩ | ⟨hne, hj2'⟩
            · rw [e2] at hk2; simp at hk2
            · -- another record under the same key owning an entry: the table is a map
              have := inv.tableUniq j2 k s2 s hj2' hk hk2.2 hp.2 (by
                simp only [sameKey, Bool.and_eq_true, beq_iff_eq]; omega)
              exact hne this

theorem sink_open_iff_active_of_noOrphan (st : State) (hr : Reachable st) (hno : NoOrphan st)
    (hnd : ∀ s ∈ st.subs, s.displaced = false) (k : Nat) (b : Bool) (h : (step st (.isClosed k)).2 = .bool b) :
    ∃ s, st.subs[k]? = some s ∧ (b = false ↔ Active st s) := by
  have inv := reachable_inv hr
  simp only [step, doIsClosed] at h
  split at h
  · simp at h
  · rename_i s cn hl
    obtain ⟨hs, hc⟩ := lookup_some hl
    have hmem := lookup_mem hl
    split at h
    · simp at h
    · rename_i hcl
      have hcl : s.clones > 0 := by
        have : ¬ s.clones = 0 := by simpa using hcl
        omega
      simp at h
      refine ⟨s, hs, ?_⟩
      rw [← h]
      have t := (inv.subOk s hmem).table
      have hacc := (inv.subOk s hmem).clonesAcc hcl
      constructor
      · intro hb
        simp at hb
        have := t.mp hb.2
        exact ⟨this.1, this.2.1, this.2.2.1, cn, hc, hb.1⟩
      · rintro ⟨ha, hu, _, cn', hc', ho⟩
        rw [hc] at hc'; cases hc'
        have : s.inTable = true := t.mpr ⟨ha, hu, hcl, hno s hmem, hnd s hmem⟩
        simp [ho, this]

/-! #### the F-13 region -/

theorem noOrphan_put {st : State} (h : NoOrphan st) (k : Nat) (s' : Sub) (cn' : Conn)
    (ho : s'.orphaned = false) : NoOrphan (put st k s' cn') := by
  intro x hx
  simp only [put] at hx
  rcases List.mem_or_eq_of_mem_set hx with hx | rfl
  · exact h x hx
  · exact ho

/-- with a drop rule that removes the entry only at the last handle, no state is in the region -/
theorem noOrphan_step (hfix : ∀ n, n ≥ 2 → dropSinkRemovesEntry n = false) {st : State}
    (h : NoOrphan st) (op : Op) : NoOrphan (step st op).1 := by
  have lk : ∀ {k s cn}, lookup st k = some (s, cn) → s.orphaned = false :=
    fun hl => h _ (lookup_mem hl)
  cases op with
  | subscribe c m rid sid =>
    simp only [step, doSubscribe]
    split
    · exact h
    · split
      · exact h
      · split
        · split <;> exact h
        · intro x hx
          simp only [List.mem_append, List.mem_singleton] at hx
          rcases hx with hx | rfl
          · exact h x hx
          · rfl
  | cancelCall k =>
    simp only [step, doCancelCall]
    split
    · exact h
    · rename_i hl
      split
      · exact h
      · exact noOrphan_put h _ _ _ (by simpa using lk hl)
  | accept k =>
    simp only [step, doAccept]
    split
    · exact h
    · rename_i hl
      split
      · exact h
      · split
        · exact noOrphan_put h _ _ _ (by simpa using lk hl)
        · split
          · exact h
          · split
            · exact noOrphan_put h _ _ _ (by simpa using lk hl)
            · rename_i s cn _ _ _ _
              have hm : NoOrphan { st with subs := st.subs.map (displace s.conn s.meth s.subId) } := by
                intro x hx
                simp only [List.mem_map] at hx
                obtain ⟨t, ht, rfl⟩ := hx
                have := h t ht
                unfold displace
                split <;> simpa using this
              exact noOrphan_put hm _ _ _ (by simpa using lk hl)
  | reject k code =>
    simp only [step, doRefuse]
    split
    · exact h
    · rename_i hl
      split
      · exact h
      · split
        · exact h
        · exact noOrphan_put h _ _ _ (by simpa using lk hl)
  | dropPending k =>
    simp only [step, doRefuse]
    split
    · exact h
    · rename_i hl
      split
      · exact h
      · split
        · exact h
        · exact noOrphan_put h _ _ _ (by simpa using lk hl)
  | send k p =>
    simp only [step, doSend]
    split
    · exact h
    · rename_i hl
      split
      · exact h
      · split
        · exact h
        · split
          · exact h
          · exact noOrphan_put h _ _ _ (by simpa using lk hl)
  | sendResume k p =>
    simp only [step, doSendResume]
    split
    · exact h
    · rename_i hl
      split
      · exact h
      · split
        · exact h
        · split
          · exact h
          · exact noOrphan_put h _ _ _ (by simpa using lk hl)
  | cloneSink k =>
    simp only [step, doClone]
    split
    · exact h
    · rename_i hl
      split
      · exact h
      · exact noOrphan_put h _ _ _ (by simpa using lk hl)
  | dropSink k =>
    simp only [step, doDropSink]
    split
    · exact h
    · rename_i s cn hl
      split
      · exact h
      · refine noOrphan_put h _ _ _ ?_
        simp only [lk hl, Bool.false_or, Bool.and_eq_false_imp, Bool.and_eq_true, decide_eq_false_iff_not,
          Nat.not_lt]
        intro hrem
        by_cases h2 : s.clones ≥ 2
        · rw [hfix _ h2] at hrem; simp at hrem
        · omega
  | isClosed k =>
    simp only [step, doIsClosed]
    split
    · exact h
    · split <;> exact h
  | handlerReturn k r =>
    simp only [step, doReturn]
    split
    · exact h
    · rename_i hl
      split
      · exact h
      · exact noOrphan_put h _ _ _ (by simpa using lk hl)
  | taskStep k =>
    simp only [step, doTask]
    split
    · exact h
    · rename_i hl
      split
      · exact h
      · split
        · exact noOrphan_put h _ _ _ (by simpa using lk hl)
        · split
          · exact noOrphan_put h _ _ _ (by simpa using lk hl)
          · split
            · exact h
            · exact noOrphan_put h _ _ _ (by simpa using lk hl)
  | unsubscribe c m x rid =>
    simp only [step, doUnsubscribe]
    split
    · exact h
    · split
      · exact h
      · split
        · exact h
        · split
          · exact h
          · split
            · exact h
            · rename_i s hs
              exact noOrphan_put h _ _ _ (h s (List.mem_iff_getElem?.mpr ⟨_, hs⟩))
  | unsubscribeBad c rid =>
    simp only [step, doUnsubscribeBad]
    split
    · exact h
    · split
      · exact h
      · split <;> exact h
  | connClose c =>
    simp only [step, doConnClose]
    split <;> exact h
  | stop => exact h
  | connFinish c =>
    simp only [step, doConnFinish]
    split
    · exact h
    · split <;> exact h
  | writerStep c =>
    simp only [step, doWriter]
    split
    · exact h
    · split
      · exact h
      · split <;> exact h

theorem noOrphan_of_fixed (hfix : ∀ n, n ≥ 2 → dropSinkRemovesEntry n = false) {st : State}
    (hr : Reachable st) : NoOrphan st := by
  obtain ⟨cfg, ops, rfl⟩ := hr
  have : ∀ (s : State), NoOrphan s → NoOrphan (run s ops) := by
    induction ops with
    | nil => intro s hs; exact hs
    | cons op r ih => intro s hs; exact ih _ (noOrphan_step hfix hs op)
  exact this _ (by intro s hs; simp [init] at hs)

/-- the drop rule of the code: a handle that is not the last one leaves the entry alone -/
theorem dropSink_nonlast : ∀ n, n ≥ 2 → dropSinkRemovesEntry n = false := by
  intro n hn
  simp [dropSinkRemovesEntry]
  omega

theorem reachable_noOrphan {st : State} (hr : Reachable st) : NoOrphan st :=
  noOrphan_of_fixed dropSink_nonlast hr

/-- **C06.1** (full strength).  In every state reachable with an id provider that hands out only ids
that are free on the connection (`ReachableD`; ids MAY be re-used once their subscription was
unsubscribed or ended, and MAY be in use on other connections) `unsubscribe(conn, x)` answers true exactly
when it names a subscription that is currently active on the same connection: accepted, not
unsubscribed, the handler still holds a sink, connection open — hence false for an unknown id,
another connection's id, a second unsubscribe, a handler that is gone. -/
theorem c06_unsub_truth : c06_unsub_truth_statement :=
  fun st hr c m x rid b h =>
    unsub_truth_of_noOrphan st (reachableD_reachable hr) (reachable_noOrphan (reachableD_reachable hr))
      (reachableD_clean hr).noDispl c m x rid b h

/-- **C06.1**: a subscription stays active as long as it has not been unsubscribed, its connection
is open and the handler still holds a sink — the sink reports open exactly then -/
theorem c06_sink_open_iff_active (st : State) (hr : ReachableD st) (k : Nat) (b : Bool)
    (h : (step st (.isClosed k)).2 = .bool b) :
    ∃ s, st.subs[k]? = some s ∧ (b = false ↔ Active st s) :=
  sink_open_iff_active_of_noOrphan st (reachableD_reachable hr) (reachable_noOrphan (reachableD_reachable hr))
    (reachableD_clean hr).noDispl k b h

/-! ### C06.2 — the cap -/

/-- C06.2: the permits taken from a connection are exactly its pending subscriptions plus those
whose handler still holds a sink, and never exceed the cap -/
theorem c06_cap (st : State) (hr : Reachable st) (c : Nat) (cn : Conn) (hc : st.conns[c]? = some cn) :
    cn.cap - cn.permitsFree = held st c ∧ held st c ≤ cn.cap := by
  have := (reachable_inv hr).permit c cn hc
  omega

/-- C06.2: a subscribe call on a serving connection is refused (-32006; `blocked` = the refusal is
waiting for queue room) exactly when the count is at the cap, and is admitted otherwise -/
theorem c06_refusal_iff (st : State) (hr : Reachable st) (c m rid sid : Nat) (cn : Conn)
    (hc : st.conns[c]? = some cn) (ho : cn.isOpen = true) (hs : cn.stopping = false) :
    (((step st (.subscribe c m rid sid)).2 = .refused ∨ (step st (.subscribe c m rid sid)).2 = .blocked)
        ↔ held st c = cn.cap) ∧
    ((step st (.subscribe c m rid sid)).2 = .pending sid ↔ held st c < cn.cap) ∧
    (cn.hasRoom = true → (step st (.subscribe c m rid sid)).2 ≠ .blocked) := by
  have hp := (reachable_inv hr).permit c cn hc
  simp only [step, doSubscribe, hc, ho, hs]
  by_cases h0 : cn.permitsFree = 0
  · simp only [h0]
    cases hroom : cn.hasRoom <;> simp <;> omega
  · have : (cn.permitsFree == 0) = false := by simpa using h0
    simp only [this]
    simp
    omega

/-! ### C06.3 — slots come back -/

/-- subscriptions ever started on connection `c` -/
def onConn (st : State) (c : Nat) : Nat := st.subs.countP (fun s => s.conn == c)
/-- … of which ended: not pending any more and the handler has let go of every sink -/
def endedOn (st : State) (c : Nat) : Nat := st.subs.countP (fun s => s.conn == c && !s.holds)

theorem held_add_ended (st : State) (c : Nat) : held st c + endedOn st c = onConn st c := by
  simp only [held, endedOn, onConn]
  induction st.subs with
  | nil => simp
  | cons s r ih =>
    simp only [List.countP_cons]
    cases s.conn == c <;> cases s.holds <;> simp <;> omega

/-- C06.3: every ended subscription — whichever way it ended — has returned its slot:
free permits = cap − (started − ended) -/
theorem c06_slot_return (st : State) (hr : Reachable st) (c : Nat) (cn : Conn)
    (hc : st.conns[c]? = some cn) :
    cn.permitsFree + onConn st c = cn.cap + endedOn st c := by
  have := (reachable_inv hr).permit c cn hc
  have := held_add_ended st c
  omega

theorem subscribe_ok_state {st : State} {c m rid sid : Nat} {cn : Conn} (hc : st.conns[c]? = some cn)
    (ho : cn.isOpen = true) (hs : cn.stopping = false) (hpf : cn.permitsFree ≠ 0) :
    (step st (.subscribe c m rid sid)).2 = .pending sid ∧
    (step st (.subscribe c m rid sid)).1.conns[c]? = some { cn with permitsFree := cn.permitsFree - 1 } := by
  have : (cn.permitsFree == 0) = false := by simpa using hpf
  have hlen : c < st.conns.length := by
    rcases List.getElem?_eq_some_iff.mp hc with ⟨hh, _⟩; exact hh
  simp only [step, doSubscribe, hc]
  simp [ho, hs, this, hlen]

/-- C06.3 corollary: whatever happened before, as many new subscribe calls succeed in a row as
there are free slots (`cap − held`) — in particular k after k subscriptions have ended at the cap -/
theorem c06_reuse (reqs : List (Nat × Nat × Nat)) : ∀ (st : State), Reachable st → ∀ (c : Nat) (cn : Conn),
    st.conns[c]? = some cn → cn.isOpen = true → cn.stopping = false →
    reqs.length + held st c ≤ cn.cap →
    ∀ o ∈ outs st (reqs.map (fun r => Op.subscribe c r.1 r.2.1 r.2.2)), ∃ sid, o = .pending sid := by
  induction reqs with
  | nil => intro st _ c cn _ _ _ _ o ho; simp [outs] at ho
  | cons r rest ih =>
    intro st hr c cn hc ho hs hlen o hmem
    have hp := (reachable_inv hr).permit c cn hc
    have hpf : cn.permitsFree ≠ 0 := by simp at hlen; omega
    obtain ⟨hout, hconn⟩ := subscribe_ok_state (m := r.1) (rid := r.2.1) (sid := r.2.2) hc ho hs hpf
    simp only [List.map_cons, outs, List.mem_cons] at hmem
    rcases hmem with rfl | hmem
    · exact ⟨_, hout⟩
    · have hr' := reachable_step hr (.subscribe c r.1 r.2.1 r.2.2)
      have hp' := (reachable_inv hr').permit c _ hconn
      refine ih _ hr' c _ hconn ho hs ?_ o hmem
      simp at hlen hp' ⊢
      omega

/-! ### C06.1 — typed ids: `Num n` and `Str "n"` are different subscriptions -/

/-- an unsubscribe that answers false only enqueues its response -/
theorem unsub_false_state (st : State) (c m x rid : Nat)
    (h : (step st (.unsubscribe c m x rid)).2 = .bool false) :
    ∃ cn, st.conns[c]? = some cn ∧ cn.isOpen = true ∧
      (step st (.unsubscribe c m x rid)).1 = putConn st c (cn.push (.unsub rid false)) := by
  simp only [step, doUnsubscribe] at h ⊢
  split at h
  · simp at h
  · rename_i cn hc
    simp only [hc]
    split at h
    · simp at h
    · rename_i ho
      simp only [ho]
      split at h
      · simp at h
      · rename_i hroom
        simp only [hroom]
        split at h
        · rename_i hf
          simp at ho
          exact ⟨cn, rfl, ho.1, by simp⟩
        · rename_i k hf
          obtain ⟨s, hs, _⟩ := findIdx_some hf
          simp [hs] at h

/-- an unsubscribe that answers false changes no subscription record -/
theorem unsub_false_changes_no_record (st : State) (c m x rid : Nat)
    (h : (step st (.unsubscribe c m x rid)).2 = .bool false) :
    (step st (.unsubscribe c m x rid)).1.subs = st.subs := by
  obtain ⟨cn, _, _, e⟩ := unsub_false_state st c m x rid h
  rw [e]; rfl

/-- **C06.1, typed ids.**  The table is keyed by the typed id.  If subscription `t` is active under
the typed id `a` and no subscription of that connection (and method) has the different typed id `b` —
e.g. `a = Num 123`, `b = Str "123"`, or the other way round — then `unsubscribe(conn, b)` answers
false and changes nothing: `t` stays active and keeps its slot. -/
theorem c06_unsub_other_kind (st : State) (a b : SubId) (hab : a ≠ b) (t : Sub) (hact : Active st t)
    (hnone : ∀ u ∈ st.subs, u.conn = t.conn → u.meth = t.meth → u.subId ≠ idKey b) (rid : Nat) (r : Bool)
    (h : (step st (.unsubscribe t.conn t.meth (idKey b) rid)).2 = .bool r) :
    r = false ∧ (step st (.unsubscribe t.conn t.meth (idKey b) rid)).1.subs = st.subs ∧
      Active (step st (.unsubscribe t.conn t.meth (idKey b) rid)).1 t ∧ idKey a ≠ idKey b := by
  have hr0 : r = false := c06_unsub_foreign st t.conn t.meth (idKey b) rid hnone r h
  subst hr0
  refine ⟨rfl, unsub_false_changes_no_record st _ _ _ _ h, ?_, fun e => hab (idKey_injective a b e)⟩
  obtain ⟨cn, hc, ho, e⟩ := unsub_false_state st _ _ _ _ h
  have hlen : t.conn < st.conns.length := by
    rcases List.getElem?_eq_some_iff.mp hc with ⟨hh, _⟩; exact hh
  refine ⟨hact.1, hact.2.1, hact.2.2.1, cn.push (.unsub rid false), ?_, by simpa [Conn.push] using ho⟩
  rw [e]; simp [putConn, hlen]

/-- an unsubscribe call whose parameter is not a subscription id at all (object, array, bool,
null, float, negative, ≥ 2^64, wrong arity) is answered false and changes no record -/
theorem c06_unsub_malformed (st : State) (c rid : Nat) :
    (step st (.unsubscribeBad c rid)).1.subs = st.subs ∧
      ∀ r, (step st (.unsubscribeBad c rid)).2 = .bool r → r = false := by
  simp only [step, doUnsubscribeBad]
  split
  · simp
  · split
    · simp
    · split
      · simp
      · simp [putConn]

/-! ### C06.1/C06.3 — an accept that fails leaves nothing behind -/

/-- **A failed accept leaves nothing behind.**  Whenever `accept` answers `err` — the connection's
queue is closed, or the subscribe call had been cancelled so that nobody takes the response — the
whole effect on the state is: record `k` goes from `pending` to `acceptFailed` (its table flag, sink
count and every other record untouched: no entry appears anywhere), its connection gets the permit
back, and at most the orphan response frame is queued.  Consequently (`c06_unsub_truth`) an
unsubscribe naming its id answers false, and (`c06_cap`) the slot count is as before the subscribe. -/
theorem c06_failed_accept_leaves_nothing (st : State) (k : Nat) (herr : (step st (.accept k)).2 = .err) :
    ∃ s cn, lookup st k = some (s, cn) ∧ s.phase = .pending ∧
      ((step st (.accept k)).1 = put st k { s with phase := .acceptFailed, taskDone := true } cn.release ∨
       (step st (.accept k)).1 = put st k { s with phase := .acceptFailed, taskDone := true }
          (cn.push (.respDead s.reqId s.subId)).release) := by
  simp only [step, doAccept] at herr ⊢
  cases hl : lookup st k with
  | none => simp [hl] at herr
  | some sc =>
    obtain ⟨s, cn⟩ := sc
    simp only [hl] at herr ⊢
    refine ⟨s, cn, rfl, ?_⟩
    by_cases hph : s.phase = .pending
    · have h1 : (s.phase != Phase.pending) = false := by simp [hph]
      simp only [h1] at herr ⊢
      refine ⟨hph, ?_⟩
      cases ho : cn.isOpen with
      | false => simp
      | true =>
        simp only [ho] at herr ⊢
        cases hr : cn.hasRoom with
        | false => simp [hr] at herr
        | true =>
          simp only [hr] at herr ⊢
          cases hd : s.callDead with
          | true => simp
          | false => simp [hd] at herr
    · have h1 : (s.phase != Phase.pending) = true := by simpa using hph
      simp [h1] at herr

/-! ### C06.1 — id re-use: a late release never touches a newer subscription under the same id -/

/-- Dropping a sink handle of subscription record `k` changes no other record: whatever is
registered under the same (connection, id) key for a NEWER subscription (the id was handed out
again after an unsubscribe) keeps its table entry, however late the old handler lets go. -/
theorem c06_drop_touches_only_own_record (st : State) (k j : Nat) (hjk : j ≠ k) :
    (step st (.dropSink k)).1.subs[j]? = st.subs[j]? := by
  simp only [step, doDropSink]
  split
  · rfl
  · split
    · rfl
    · simp only [put]
      exact List.getElem?_set_ne (fun e => hjk e.symm)

/-- … and it closes no connection -/
theorem c06_drop_keeps_conn_open (st : State) (k c : Nat) :
    connOpen (step st (.dropSink k)).1 c ↔ connOpen st c := by
  simp only [step, doDropSink]
  split
  · rfl
  · rename_i s cn hl
    obtain ⟨_, hc⟩ := lookup_some hl
    have hlen : s.conn < st.conns.length := by
      rcases List.getElem?_eq_some_iff.mp hc with ⟨hh, _⟩; exact hh
    split
    · rfl
    · simp only [put, connOpen, List.getElem?_set]
      by_cases e : s.conn = c
      · subst e
        simp only [hlen, if_true, hc]
        constructor
        · rintro ⟨cn', h1, h2⟩
          simp at h1; subst h1
          refine ⟨cn, rfl, ?_⟩
          revert h2; split <;> simp [Conn.release]
        · rintro ⟨cn', h1, h2⟩
          simp at h1; subst h1
          refine ⟨_, rfl, ?_⟩
          split <;> simpa [Conn.release] using h2
      · simp [e]

/-- **C06.1, id re-use.**  A subscription that is active stays active across the (late) release
of ANY other subscription's sink — in particular of an earlier, already unsubscribed subscription
that had the same id on the same connection — and an unsubscribe naming it still answers true. -/
theorem c06_late_drop_keeps_newer (st : State) (hr : ReachableD st) (k j : Nat) (hjk : j ≠ k) (t : Sub)
    (ht : st.subs[j]? = some t) (hact : Active st t) (rid : Nat) :
    (step st (.dropSink k)).1.subs[j]? = some t ∧ Active (step st (.dropSink k)).1 t ∧
      ∀ b, (step (step st (.dropSink k)).1 (.unsubscribe t.conn t.meth t.subId rid)).2 = .bool b → b = true := by
  have h1 : (step st (.dropSink k)).1.subs[j]? = some t := by
    rw [c06_drop_touches_only_own_record st k j hjk]; exact ht
  have h2 : Active (step st (.dropSink k)).1 t :=
    ⟨hact.1, hact.2.1, hact.2.2.1, (c06_drop_keeps_conn_open st k t.conn).mpr hact.2.2.2⟩
  refine ⟨h1, h2, ?_⟩
  intro b hb
  have hr' : ReachableD (step st (.dropSink k)).1 := reachableD_step hr (.dropSink k) trivial
  exact (c06_unsub_truth _ hr' _ _ _ _ b hb).mpr
    ⟨t, List.mem_iff_getElem?.mpr ⟨j, h1⟩, rfl, rfl, rfl, h2⟩

/-! ### non-vacuity, the F-13 history, the id re-use history -/

section Examples

/-- the history of finding F-13 — one connection, cap 1: subscribe, accept, clone the sink, drop the
clone.  A sink is still held, so the subscription is active: unsubscribe answers true, the sink
reports open, a send is delivered.  (Before fix 2bde692 the code answered false / closed / error.) -/
def f13Ops : List Op := [.subscribe 0 0 7 1, .accept 0, .cloneSink 0, .dropSink 0]
def f13State : State := run (init [(1, 8)]) f13Ops

example : (step f13State (.unsubscribe 0 0 1 9)).2 = .bool true := by decide
example : (step f13State (.isClosed 0)).2 = .bool false := by decide
example : (step f13State (.send 0 5)).2 = .ok := by decide
example : ∃ s ∈ f13State.subs, s.conn = 0 ∧ s.meth = 0 ∧ s.subId = 1 ∧
    s.phase = .accepted ∧ s.unsubscribed = false ∧ s.clones = 1 ∧ s.inTable = true := by decide
-- … and the slot is only returned with the last handle
example : outs f13State [.subscribe 0 0 8 2, .dropSink 0, .subscribe 0 0 9 2] = [.refused, .ok, .pending 2] := by decide

/-- the history of seeded change C06-3 — the id provider re-uses id 5 after its subscription was
unsubscribed; the first handler lets go of its sink only after the second subscription (same id,
same connection) is active.  The late drop must not remove the newer entry. -/
def reuseOps : List Op :=
  [.subscribe 0 0 1 5, .accept 0, .unsubscribe 0 0 5 2, .subscribe 0 0 3 5, .accept 1, .dropSink 0]
def reuseState : State := run (init [(2, 8)]) reuseOps

example : DisciplinedRun (init [(2, 8)]) reuseOps := by decide
example : outs (init [(2, 8)]) reuseOps = [.pending 5, .ok, .bool true, .pending 5, .ok, .ok] := by decide
example : (step reuseState (.unsubscribe 0 0 5 4)).2 = .bool true := by decide
example : (step reuseState (.isClosed 1)).2 = .bool false := by decide
example : (step reuseState (.send 1 7)).2 = .ok := by decide
example : held reuseState 0 = 1 := by decide
-- the same id in use on two connections at once is two different subscriptions
example : outs (init [(1, 8), (1, 8)])
    [.subscribe 0 0 1 5, .subscribe 1 0 2 5, .accept 0, .accept 1, .unsubscribe 0 0 5 3, .isClosed 1,
     .unsubscribe 1 0 5 4, .unsubscribe 1 0 5 5]
    = [.pending 5, .pending 5, .ok, .ok, .bool true, .bool false, .bool true, .bool false] := by decide
-- an id provider that hands out an id STILL registered on the connection (outside `ReachableD`):
-- the accept overwrites the older entry (`HashMap::insert`), the older sink reports closed
example : ¬ DisciplinedRun (init [(2, 8)]) [.subscribe 0 0 1 5, .accept 0, .subscribe 0 0 2 5] := by decide
example : outs (init [(2, 8)]) [.subscribe 0 0 1 5, .accept 0, .subscribe 0 0 2 5, .accept 1, .isClosed 0,
      .isClosed 1, .unsubscribe 0 0 5 3, .isClosed 1]
    = [.pending 5, .ok, .pending 5, .ok, .bool true, .bool false, .bool true, .bool true] := by decide

-- typed ids (seeded change C06-R3: the unsubscribe handler turned the string "7" into the number 7):
-- the provider hands out the STRING id "7"; unsubscribe with the number 7 answers false and changes
-- nothing, with the string "7" it answers true; a malformed parameter answers false
example : idKey (.num 7) ≠ idKey (.str (lit "7")) := by decide
example : outs (init [(1, 8)])
    [.subscribe 0 0 1 (idKey (.str (lit "7"))), .accept 0, .unsubscribe 0 0 (idKey (.num 7)) 2, .isClosed 0,
     .unsubscribeBad 0 3, .isClosed 0, .subscribe 0 0 4 (idKey (.num 7)),
     .unsubscribe 0 0 (idKey (.str (lit "7"))) 5, .isClosed 0]
    = [.pending (idKey (.str (lit "7"))), .ok, .bool false, .bool false, .bool false, .bool false, .refused,
       .bool true, .bool true] := by decide
-- … and the other way round: numeric id 7, the string "7" names nothing
example : outs (init [(2, 8)])
    [.subscribe 0 0 1 (idKey (.num 7)), .accept 0, .unsubscribe 0 0 (idKey (.str (lit "7"))) 2,
     .unsubscribe 0 0 (idKey (.str (lit "007"))) 3, .unsubscribe 0 0 (idKey (.num 7)) 4]
    = [.pending (idKey (.num 7)), .ok, .bool false, .bool false, .bool true] := by decide

-- seeded change C06-R8: the subscribe call is cancelled, then the (raw) handler accepts: accept
-- fails, the orphan response is on the wire, no entry, unsubscribe answers false, the slot is back
example : outs (init [(1, 8)])
    [.subscribe 0 2 1 5, .cancelCall 0, .accept 0, .unsubscribe 0 2 5 2, .subscribe 0 2 3 6, .writerStep 0]
    = [.pending 5, .done, .err, .bool false, .pending 6, .frame (.respDead 1 5)] := by decide
-- a cancelled call whose sink is dropped without decision answers nothing; reject still writes its error
example : outs (init [(2, 8)])
    [.subscribe 0 2 1 5, .cancelCall 0, .dropPending 0, .writerStep 0, .subscribe 0 2 2 6, .cancelCall 1,
     .reject 1 (-7), .writerStep 0]
    = [.pending 5, .done, .done, .empty, .pending 6, .done, .done, .frame (.err 2 (-7))] := by decide

-- the truth table on a concrete history
def okState : State := run (init [(1, 8), (1, 8)]) [.subscribe 0 0 7 1, .accept 0, .send 0 5]
example : NoOrphan okState := by decide
example : (step okState (.unsubscribe 0 0 1 9)).2 = .bool true := by decide
example : (step okState (.unsubscribe 1 0 1 9)).2 = .bool false := by decide   -- another connection's id
example : (step okState (.unsubscribe 0 1 1 9)).2 = .bool false := by decide   -- another method's table
example : (step okState (.unsubscribe 0 0 2 9)).2 = .bool false := by decide   -- unknown id
example : (step (step okState (.unsubscribe 0 0 1 9)).1 (.unsubscribe 0 0 1 10)).2 = .bool false := by decide
example : (step (run okState [.dropSink 0]) (.unsubscribe 0 0 1 9)).2 = .bool false := by decide  -- handler gone
example : (step okState (.isClosed 0)).2 = .bool false := by decide

-- cap 1: the second subscribe is refused, after the first one ended (reject / sink dropped /
-- unsubscribe + drop) a new one is admitted; cap 0 refuses everything
example : outs (init [(1, 8)]) [.subscribe 0 0 1 1, .subscribe 0 0 2 2, .reject 0 (-5), .subscribe 0 0 3 2]
    = [.pending 1, .refused, .done, .pending 2] := by decide
example : outs (init [(1, 8)]) [.subscribe 0 0 1 1, .accept 0, .unsubscribe 0 0 1 2, .subscribe 0 0 3 2,
      .dropSink 0, .subscribe 0 0 4 2]
    = [.pending 1, .ok, .bool true, .refused, .ok, .pending 2] := by decide
example : outs (init [(0, 8)]) [.subscribe 0 0 1 1] = [.refused] := by decide
example : outs (init [(2, 8)]) [.subscribe 0 0 1 1, .connClose 0, .accept 0, .subscribe 0 0 2 2]
    = [.pending 1, .done, .err, .ignored] := by decide
example : held okState 0 = 1 ∧ endedOn okState 0 = 0 := by decide
-- c06_reuse's hypotheses are satisfiable with k = 2
example : (([(0, 1, 1), (1, 2, 2)] : List (Nat × Nat × Nat)).length + held (init [(2, 8)]) 0 ≤ 2) := by decide

end Examples

end Jrpc.SubServer
