/-
  C06 (configuration clause) — over the wiring table regenerated from /repo on every run: at every
  place where a connection's subscription limiter is built (tower service path in server.rs and the
  low-level `ws::connect`), the cap is `max_subscriptions_per_connection`.
-/
import JrpcVerif.Gen.LimitWiring
namespace Jrpc.Gen

theorem c06_wiring : (∀ s ∈ subscriptionCapSites, s.2 = true) ∧ subscriptionCapSites.length ≥ 2 ∧
    limitWiringTranslatorOk = true := by decide

end Jrpc.Gen
