/-
  C07 — requests above max_request_body_size are never processed, on any path.
  `c07_wiring*` are over the table GENERATED from the wiring sites of /repo on every run; the rest
  over the transcribed transports (soketto's enforcement of the configured frame size is the
  parameter `byteLen t > cfg.maxReq`).
-/
import JrpcVerif.Model.ServerMsg
import JrpcVerif.Gen.LimitWiring
namespace Jrpc.Srv
open Jrpc Jrpc.Gen Jrpc.Gen.E

theorem c07_translator_ok : limitWiringTranslatorOk = true := by decide

/-- **C07.1** — at every site where a limit on incoming messages is configured, checked or
reported (default server / tower service, low-level `ws::connect`, `http::call_with_service`), the
configuration field used is `max_request_body_size`; the response limit goes to the RPC service only. -/
theorem c07_wiring : (∀ s ∈ requestLimitSites, s.2 = LimitField.maxRequestBodySize) ∧
    (∀ s ∈ responseLimitSites, s.2 = LimitField.maxResponseBodySize) ∧
    requestLimitSites.length = 7 ∧ responseLimitSites.length ≥ 3 := by decide

/-- **C07.2 (WS)** — an oversize message is never parsed or dispatched; the answer is the
`-32007` object with id null, and the connection state is untouched (it keeps serving). -/
theorem c07_ws_never_processed (cfg : Cfg) (sub : Nat) (t : Text) (h : cfg.maxReq < byteLen t) :
    (wsMessage cfg sub t).frames = [errorResponse .null (rejectErr reject_too_big_request cfg.maxReq)] ∧
    (wsMessage cfg sub t).invoked = [] ∧ (wsMessage cfg sub t).nextSub = sub := by
  have : byteLen t > cfg.maxReq := h
  simp [wsMessage, this]

theorem byteLen_append' (a b : Text) : byteLen (a ++ b) = byteLen a + byteLen b := by
  induction a with
  | nil => simp [byteLen]
  | cons c a ih => simp [byteLen, ih]; omega

def totalLen : List Text → Nat
  | [] => 0
  | c :: cs => byteLen c + totalLen cs

/-- reading a body whose chunks add up to more than the limit never yields data -/
theorem readChunks_oversize (max : Nat) : ∀ (chunks : List Text) (seen skipped : Nat) (received : Text) (single : Option Bool),
    seen ≤ max → max < seen + totalLen chunks →
    readChunks max chunks seen skipped received single = .tooLarge ∨
    readChunks max chunks seen skipped received single = .malformed := by
  intro chunks
  induction chunks with
  | nil => intro seen skipped received single hs h; simp [totalLen] at h; omega
  | cons ch rest ih =>
    intro seen skipped received single hs h
    simp only [readChunks]
    by_cases hov : seen + byteLen ch > max
    · simp [hov]
    · simp only [hov, ↓reduceIte]
      have h' : max < (seen + byteLen ch) + totalLen rest := by simp [totalLen] at h; omega
      cases single with
      | some s => exact ih _ _ _ _ (by omega) h'
      | none =>
        simp only []
        split
        · exact ih _ _ _ _ (by omega) h'
        · split
          · exact ih _ _ _ _ (by omega) h'
          · right; rfl
        · right; rfl

/-- **C07.2 (HTTP)** — a body larger than the limit (declared by Content-Length, or actually, with
or without the header, however it is chunked) is answered with an HTTP error status and no handler
runs. -/
theorem c07_http_never_processed (cfg : Cfg) (ct : Option Text) (cl : Option Nat) (chunks : List Text)
    (h : cfg.maxReq < totalLen chunks ∨ (∃ n, cl = some n ∧ cfg.maxReq < n)) :
    let o := httpCall cfg tPOST ct cl chunks
    (o.status = 413 ∨ o.status = 400 ∨ o.status = 415) ∧ o.invoked = [] := by
  intro o
  show (((httpCall cfg tPOST ct cl chunks).status = 413 ∨ (httpCall cfg tPOST ct cl chunks).status = 400 ∨
        (httpCall cfg tPOST ct cl chunks).status = 415) ∧ (httpCall cfg tPOST ct cl chunks).invoked = [])
  unfold httpCall
  simp only [bne_self_eq_false, Bool.false_eq_true, ↓reduceIte]
  by_cases hct : isJsonContentType ct = true
  · simp only [hct, Bool.not_true, Bool.false_eq_true, ↓reduceIte]
    have hrb : readBody cl chunks cfg.maxReq = .tooLarge ∨ readBody cl chunks cfg.maxReq = .malformed := by
      unfold readBody
      rcases h with h | ⟨n, hn, hlt⟩
      · cases cl with
        | none => exact readChunks_oversize _ chunks 0 0 [] none (by omega) (by omega)
        | some n =>
          simp only []
          split
          · left; rfl
          · exact readChunks_oversize _ chunks 0 0 [] none (by omega) (by omega)
      · subst hn; left; simp [hlt]
    rcases hrb with hrb | hrb <;> simp [hrb]
  · simp [hct]

/-- **C07.3** — the verdict depends on this limit only: two configurations with the same
`max_request_body_size` accept / reject exactly the same messages, whatever their response limit
and batch settings. -/
theorem c07_depends_only_on_max_req (cfg cfg' : Cfg) (sub : Nat) (t : Text) (cl : Option Nat) (chunks : List Text)
    (h : cfg.maxReq = cfg'.maxReq) :
    ((wsMessage cfg sub t).frames = [errorResponse .null (rejectErr reject_too_big_request cfg.maxReq)] ∧ cfg.maxReq < byteLen t ↔
     (wsMessage cfg' sub t).frames = [errorResponse .null (rejectErr reject_too_big_request cfg'.maxReq)] ∧ cfg'.maxReq < byteLen t) ∧
    readBody cl chunks cfg.maxReq = readBody cl chunks cfg'.maxReq := by
  refine ⟨?_, by rw [h]⟩
  constructor
  · intro ⟨_, h2⟩
    have : byteLen t > cfg'.maxReq := by omega
    exact ⟨by simp [wsMessage, this], by omega⟩
  · intro ⟨_, h2⟩
    have : byteLen t > cfg.maxReq := by omega
    exact ⟨by simp [wsMessage, this], by omega⟩

/-- **C07.3** — messages up to the limit are processed normally: the size gate is transparent -/
theorem c07_upto_limit (cfg : Cfg) (sub : Nat) (t : Text) (h : byteLen t ≤ cfg.maxReq) (idx : Nat)
    (hs : sniff 128 0 t = some (idx, true)) :
    (wsMessage cfg sub t).invoked = (handleSingle cfg .ws sub (t.drop idx)).invoked := by
  have : ¬ byteLen t > cfg.maxReq := by omega
  simp [wsMessage, this, hs]

end Jrpc.Srv
