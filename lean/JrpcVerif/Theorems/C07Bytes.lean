/-
  C07 on the byte-level HTTP model (what the driver runs for `http` lines): an oversize body —
  by its real size in bytes, however it is cut into frames, or by its declared Content-Length —
  never reaches a handler.
-/
import JrpcVerif.Theorems.C19Bytes
namespace Jrpc.Srv
open Jrpc Jrpc.Gen.E

/-- reading frames that add up to more than the limit never yields data -/
theorem readChunksB_oversize (max : Nat) : ∀ (chunks : List Bytes) (seen skipped : Nat) (received : Bytes) (single : Option Bool),
    seen ≤ max → max < seen + totalLenB chunks →
    readChunksB max chunks seen skipped received single = .tooLarge ∨
    readChunksB max chunks seen skipped received single = .malformed := by
  intro chunks
  induction chunks with
  | nil => intro seen skipped received single hs h; simp [totalLenB] at h; omega
  | cons ch rest ih =>
    intro seen skipped received single hs h
    simp only [readChunksB]
    by_cases hov : seen + ch.length > max
    · simp [hov]
    · simp only [hov, ↓reduceIte]
      have h' : max < (seen + ch.length) + totalLenB rest := by simp [totalLenB] at h; omega
      cases single with
      | some s => exact ih _ _ _ _ (by omega) h'
      | none =>
        simp only []
        split
        · exact ih _ _ _ _ (by omega) h'
        · split
          · exact ih _ _ _ _ (by omega) h'
          · right; rfl
        · right; rfl

/-- **C07.2 (HTTP, bytes)** — a body larger than the limit (really, in bytes, however framed — or
by its declared Content-Length, also when the real body is smaller, also when the declaration
understates the real size) is answered with an HTTP error status and no handler runs. -/
theorem c07_http_never_processed_bytes (cfg : Cfg) (ct : Option Text) (cl : Option Nat) (frames : List Bytes)
    (h : cfg.maxReq < totalLenB frames ∨ (∃ n, cl = some n ∧ cfg.maxReq < n)) :
    ∃ o, httpCallB cfg tPOST ct cl frames = some o ∧
      (o.status = 413 ∨ o.status = 400 ∨ o.status = 415) ∧ o.invoked = [] := by
  unfold httpCallB
  simp only [bne_self_eq_false, Bool.false_eq_true, ↓reduceIte]
  by_cases hct : isJsonContentType ct = true
  · simp only [hct, Bool.not_true, Bool.false_eq_true, ↓reduceIte]
    have hrb : readBodyB cl frames cfg.maxReq = .tooLarge ∨ readBodyB cl frames cfg.maxReq = .malformed := by
      unfold readBodyB
      rcases h with h | ⟨n, hn, hlt⟩
      · cases cl with
        | none => exact readChunksB_oversize _ frames 0 0 [] none (by omega) (by omega)
        | some n =>
          simp only []
          split
          · left; rfl
          · exact readChunksB_oversize _ frames 0 0 [] none (by omega) (by omega)
      · subst hn; left; simp [hlt]
    rcases hrb with hrb | hrb <;> simp [hrb]
  · simp [hct]

end Jrpc.Srv
