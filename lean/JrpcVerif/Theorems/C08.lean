/-
  C08 — no response payload above max_response_body_size is ever sent.
  Sizes are UTF-8 byte lengths (`byteLen`).  The bounded writer of `MethodResponse::response` accepts
  a write iff the cumulative length stays within the limit, so (monotone cumulative writes) the
  serialisation succeeds iff the complete text fits: that is how `methodResponse` models it.
-/
import JrpcVerif.Model.ServerMsg
import JrpcVerif.Proofs.BuildLemmas
namespace Jrpc.Srv
open Jrpc

theorem byteLen_append (a b : Text) : byteLen (a ++ b) = byteLen a + byteLen b := by
  induction a with
  | nil => simp [byteLen]
  | cons c a ih => simp [byteLen, ih]; omega

/-- **C08.1** — a single response is either within the limit or it is exactly the fixed
"response is too big" error carrying the call's id; a response that fits — exactly at the limit
included — is sent unchanged.  Holds for results and for handler errors (with data) alike. -/
theorem c08_single (id : Id) (p : Payload) (max : Nat) :
    (byteLen (methodResponse id p max) ≤ max ∨ methodResponse id p max = tooBigResponse id max) ∧
    (byteLen (respText id p) ≤ max → methodResponse id p max = respText id p) ∧
    (max < byteLen (respText id p) → methodResponse id p max = tooBigResponse id max) := by
  unfold methodResponse
  refine ⟨?_, ?_, ?_⟩
  · by_cases h : byteLen (respText id p) ≤ max
    · left; simp [h]
    · right; simp [h]
  · intro h; simp [h]
  · intro h
    have : ¬ byteLen (respText id p) ≤ max := by omega
    simp [this]

/-- the too-big error names the id of the call it replaces -/
theorem c08_too_big_carries_id (id : Id) (max : Nat) :
    ∃ e, tooBigResponse id max = respText id (.error e) ∧ e.code = Jrpc.Gen.E.OVERSIZED_RESPONSE_CODE :=
  ⟨_, rfl, rfl⟩

/-- batch builder invariant: `[` followed by the accepted replies, each followed by `,` -/
def BatchInv (b : BatchB) (rs : List Text) (max : Nat) : Prop :=
  b.result = 91 :: commaCat rs ∧ (rs ≠ [] → byteLen b.result ≤ max)

theorem batch_inv_new (max : Nat) : BatchInv BatchB.new [] max := by
  simp [BatchInv, BatchB.new, commaCat]

theorem commaCat_append (rs : List Text) (r : Text) : commaCat (rs ++ [r]) = commaCat rs ++ r ++ [44] := by
  induction rs with
  | nil => simp [commaCat]
  | cons a rs ih => simp [commaCat, ih]

/-- **C08.2 (append)** — an append succeeds iff the text accumulated so far, the reply and its
separator fit; on success the invariant is kept, on failure the result is exactly the -32011
object with id null. -/
theorem c08_append (b : BatchB) (rs : List Text) (r : Text) (max : Nat) (h : BatchInv b rs max) :
    (byteLen r + byteLen b.result + 1 ≤ max →
        ∃ b', b.append r max = .ok b' ∧ BatchInv b' (rs ++ [r]) max) ∧
    (max < byteLen r + byteLen b.result + 1 →
        b.append r max = .error (errorResponse .null (rejectErr Jrpc.Gen.E.reject_too_big_batch_response max))) := by
  refine ⟨?_, ?_⟩
  · intro hfit
    have hn : ¬ (byteLen r + byteLen b.result + 1 > max) := by omega
    refine ⟨⟨b.result ++ r ++ [44]⟩, by simp [BatchB.append, hn], ?_, ?_⟩
    · simp [h.1, commaCat_append]
    · intro _
      simp only [byteLen_append]
      have : byteLen [44] = 1 := by decide
      omega
  · intro hover
    simp [BatchB.append, hover]

/-- **C08.2 (finish)** — the finished array of a non-empty builder is `[r1,…,rn]`, has exactly the
byte length of the accumulated text (the last `,` becomes `]`) and therefore fits the limit. -/
theorem c08_finish (b : BatchB) (rs : List Text) (max : Nat) (h : BatchInv b rs max) (hne : rs ≠ []) :
    b.finish = 91 :: joinElems rs ++ [93] ∧ byteLen b.finish ≤ max := by
  have hres : b.result = 91 :: (joinElems rs ++ [44]) := by rw [h.1, commaCat_eq_join rs hne]
  have hlen : b.result.length ≠ 1 := by rw [hres]; simp
  have hfin : b.finish = 91 :: joinElems rs ++ [93] := by
    have hdl : b.result.dropLast = 91 :: joinElems rs := by
      rw [hres]
      have : (91 :: (joinElems rs ++ [44])) = (91 :: joinElems rs) ++ [44] := by simp
      rw [this, List.dropLast_concat]
    simp [BatchB.finish, hlen, hdl]
  refine ⟨hfin, ?_⟩
  have hb := h.2 hne
  rw [hfin]
  rw [hres] at hb
  have e1 : byteLen (91 :: joinElems rs ++ [93]) = byteLen [91] + byteLen (joinElems rs) + byteLen [93] := by
    have : (91 :: joinElems rs ++ [93]) = [91] ++ joinElems rs ++ [93] := by simp
    rw [this, byteLen_append, byteLen_append]
  have e2 : byteLen (91 :: (joinElems rs ++ [44])) = byteLen [91] + byteLen (joinElems rs) + byteLen [44] := by
    have : (91 :: (joinElems rs ++ [44])) = [91] ++ joinElems rs ++ [44] := by simp
    rw [this, byteLen_append, byteLen_append]
  have : byteLen [93] = byteLen [44] := by decide
  omega

/-- **C08.3** — the response limit never changes which requests are accepted or executed: for a
single message the handlers that run do not depend on `maxResp`. -/
theorem c08_requests_unaffected (cfg cfg' : Cfg) (tr : Transport) (sub : Nat) (t : Text)
    (_h1 : cfg.maxReq = cfg'.maxReq) (_h2 : cfg.batch = cfg'.batch) :
    (handleSingle cfg tr sub t).invoked = (handleSingle cfg' tr sub t).invoked ∧
    (handleSingle cfg tr sub t).nextSub = (handleSingle cfg' tr sub t).nextSub ∧
    ((handleSingle cfg tr sub t).reply.isSome ↔ (handleSingle cfg' tr sub t).reply.isSome) := by
  unfold handleSingle
  cases hc : classify t with
  | call r =>
    simp only []
    unfold callMethod
    cases hh : handlerOutcome r.method r.params with
    | none => simp
    | some ko =>
      obtain ⟨k, o⟩ := ko
      cases k <;> cases tr <;> cases o <;> simp
  | notif n => simp
  | invalid id => simp
  | garbage => simp

-- non-vacuity: a reply exactly at the limit is sent unchanged, one byte more is replaced
example : byteLen (respText (.num 1) (.result [49])) = 35 := by decide
example : methodResponse (.num 1) (.result [49]) 35 = respText (.num 1) (.result [49]) := by decide
example : methodResponse (.num 1) (.result [49]) 34 = tooBigResponse (.num 1) 34 := by decide

end Jrpc.Srv
