/-
  C08 — no response payload above max_response_body_size is ever sent.
  Sizes are UTF-8 byte lengths (`byteLen`).  The bounded writer of `MethodResponse::response` accepts
  a write iff the cumulative length stays within the limit, so (monotone cumulative writes) the
  serialisation succeeds iff the complete text fits: that is how `methodResponse` models it.
-/
import JrpcVerif.Model.ServerMsg
import JrpcVerif.Proofs.BuildLemmas
namespace Jrpc.Srv
open Jrpc Jrpc.Gen.E

theorem byteLen_append (a b : Text) : byteLen (a ++ b) = byteLen a + byteLen b := by
  induction a with
  | nil => simp [byteLen]
  | cons c a ih => simp [byteLen, ih]; omega

/-- **C08.1** — a single response is either within the limit or it is exactly the fixed
"response is too big" error carrying the call's id; a response that fits — exactly at the limit
included — is sent unchanged.  Holds for results and for handler errors (with data) alike. -/
theorem c08_single (id : Id) (p : Payload) (max : Nat) :
    (byteLen (methodResponse id p max) ≤ max ∨ methodResponse id p max = tooBigResponse id max) ∧
    (byteLen (respText id p) ≤ max → methodResponse id p max = respText id p) ∧
    (max < byteLen (respText id p) → methodResponse id p max = tooBigResponse id max) := by
  unfold methodResponse
  refine ⟨?_, ?_, ?_⟩
  · by_cases h : byteLen (respText id p) ≤ max
    · left; simp [h]
    · right; simp [h]
  · intro h; simp [h]
  · intro h
    have : ¬ byteLen (respText id p) ≤ max := by omega
    simp [this]

/-- the too-big error names the id of the call it replaces -/
theorem c08_too_big_carries_id (id : Id) (max : Nat) :
    ∃ e, tooBigResponse id max = respText id (.error e) ∧ e.code = Jrpc.Gen.E.OVERSIZED_RESPONSE_CODE :=
  ⟨_, rfl, rfl⟩

/-- batch builder invariant: `[` followed by the accepted replies, each followed by `,` -/
def BatchInv (b : BatchB) (rs : List Text) (max : Nat) : Prop :=
  b.result = 91 :: commaCat rs ∧ (rs ≠ [] → byteLen b.result ≤ max)

theorem batch_inv_new (max : Nat) : BatchInv BatchB.new [] max := by
  simp [BatchInv, BatchB.new, commaCat]

theorem commaCat_append (rs : List Text) (r : Text) : commaCat (rs ++ [r]) = commaCat rs ++ r ++ [44] := by
  induction rs with
  | nil => simp [commaCat]
  | cons a rs ih => simp [commaCat, ih]

/-- **C08.2 (append)** — an append succeeds iff the text accumulated so far, the reply and its
separator fit; on success the invariant is kept, on failure the result is exactly the -32011
object with id null. -/
theorem c08_append (b : BatchB) (rs : List Text) (r : Text) (max : Nat) (h : BatchInv b rs max) :
    (byteLen r + byteLen b.result + 1 ≤ max →
        ∃ b', b.append r max = .ok b' ∧ BatchInv b' (rs ++ [r]) max) ∧
    (max < byteLen r + byteLen b.result + 1 →
        b.append r max = .error (errorResponse .null (rejectErr Jrpc.Gen.E.reject_too_big_batch_response max))) := by
  refine ⟨?_, ?_⟩
  · intro hfit
    have hn : ¬ (byteLen r + byteLen b.result + 1 > max) := by omega
    refine ⟨⟨b.result ++ r ++ [44]⟩, by simp [BatchB.append, hn], ?_, ?_⟩
    · simp [h.1, commaCat_append]
    · intro _
      simp only [byteLen_append]
      have : byteLen [44] = 1 := by decide
      omega
  · intro hover
    simp [BatchB.append, hover]

/-- **C08.2 (finish)** — the finished array of a non-empty builder is `[r1,…,rn]`, has exactly the
byte length of the accumulated text (the last `,` becomes `]`) and therefore fits the limit. -/
theorem c08_finish (b : BatchB) (rs : List Text) (max : Nat) (h : BatchInv b rs max) (hne : rs ≠ []) :
    b.finish = 91 :: joinElems rs ++ [93] ∧ byteLen b.finish ≤ max := by
  have hres : b.result = 91 :: (joinElems rs ++ [44]) := by rw [h.1, commaCat_eq_join rs hne]
  have hlen : b.result.length ≠ 1 := by rw [hres]; simp
  have hfin : b.finish = 91 :: joinElems rs ++ [93] := by
    have hdl : b.result.dropLast = 91 :: joinElems rs := by
      rw [hres]
      have : (91 :: (joinElems rs ++ [44])) = (91 :: joinElems rs) ++ [44] := by simp
      rw [this, List.dropLast_concat]
    simp [BatchB.finish, hlen, hdl]
  refine ⟨hfin, ?_⟩
  have hb := h.2 hne
  rw [hfin]
  rw [hres] at hb
  have e1 : byteLen (91 :: joinElems rs ++ [93]) = byteLen [91] + byteLen (joinElems rs) + byteLen [93] := by
    have : (91 :: joinElems rs ++ [93]) = [91] ++ joinElems rs ++ [93] := by simp
    rw [this, byteLen_append, byteLen_append]
  have e2 : byteLen (91 :: (joinElems rs ++ [44])) = byteLen [91] + byteLen (joinElems rs) + byteLen [44] := by
    have : (91 :: (joinElems rs ++ [44])) = [91] ++ joinElems rs ++ [44] := by simp
    rw [this, byteLen_append, byteLen_append]
  have : byteLen [93] = byteLen [44] := by decide
  omega

/-- **C08.3** — the response limit never changes which requests are accepted or executed: for a
single message the handlers that run do not depend on `maxResp`. -/
theorem c08_requests_unaffected (cfg cfg' : Cfg) (tr : Transport) (sub : Nat) (t : Text)
    (_h1 : cfg.maxReq = cfg'.maxReq) (_h2 : cfg.batch = cfg'.batch) :
    (handleSingle cfg tr sub t).invoked = (handleSingle cfg' tr sub t).invoked ∧
    (handleSingle cfg tr sub t).nextSub = (handleSingle cfg' tr sub t).nextSub ∧
    ((handleSingle cfg tr sub t).reply.isSome ↔ (handleSingle cfg' tr sub t).reply.isSome) := by
  unfold handleSingle
  cases hc : classify t with
  | call r =>
    simp only []
    unfold callMethod
    cases hh : handlerOutcome r.method r.params with
    | none => simp
    | some ko =>
      obtain ⟨k, o⟩ := ko
      cases k <;> cases tr <;> cases o <;> simp
  | notif n => simp
  | invalid id => simp
  | garbage => simp

/-! ### end to end: every reply text the pipeline produces -/

/-- the fixed library errors that are built with the unbounded `MethodResponse::error` -/
def IsLibError (r : Text) : Prop :=
  ∃ id e, r = errorResponse id e ∧
    (e = errNoData METHOD_NOT_FOUND_CODE METHOD_NOT_FOUND_MSG ∨ e = internalError ∨
     e = errNoData INVALID_REQUEST_CODE INVALID_REQUEST_MSG ∨ e = errNoData PARSE_ERROR_CODE PARSE_ERROR_MSG)

/-- a reply text that C08 allows: within the limit, the too-big error for the call's id, or one of
the fixed library errors -/
def C08Ok (r : Text) (max : Nat) : Prop :=
  byteLen r ≤ max ∨ (∃ id, r = tooBigResponse id max) ∨ IsLibError r

theorem methodResponse_ok (id : Id) (p : Payload) (max : Nat) : C08Ok (methodResponse id p max) max := by
  rcases (c08_single id p max).1 with h | h
  · exact .inl h
  · exact .inr (.inl ⟨id, h⟩)

theorem internal_ok (id : Id) (max : Nat) : C08Ok (errorResponse id internalError) max :=
  .inr (.inr ⟨_, _, rfl, .inr (.inl rfl)⟩)

theorem callMethod_ok (cfg : Cfg) (tr : Transport) (sub : Nat) (r : Request) :
    C08Ok (callMethod cfg tr sub r).resp cfg.maxResp ∧
    ∀ d ∈ (callMethod cfg tr sub r).direct, C08Ok d cfg.maxResp := by
  unfold callMethod
  cases hh : handlerOutcome r.method r.params with
  | none => exact ⟨.inr (.inr ⟨_, _, rfl, .inl rfl⟩), by simp⟩
  | some ko =>
    obtain ⟨k, o⟩ := ko
    have hsub : ∀ x : Text, (∀ d ∈ [methodResponse r.id (.result x) cfg.maxResp], C08Ok d cfg.maxResp) := by
      intro x d hd
      rw [List.mem_singleton.mp hd]
      exact methodResponse_ok _ _ _
    cases k with
    | subscribe =>
      cases tr with
      | http => dsimp only; exact ⟨internal_ok _ _, List.forall_mem_nil _⟩
      | ws => dsimp only; exact ⟨methodResponse_ok _ _ _, hsub _⟩
    | unsubscribe =>
      cases tr with
      | http => dsimp only; exact ⟨internal_ok _ _, List.forall_mem_nil _⟩
      | ws => dsimp only; exact ⟨methodResponse_ok _ _ _, List.forall_mem_nil _⟩
    | sync =>
      cases o with
      | result raw => dsimp only; exact ⟨methodResponse_ok _ _ _, List.forall_mem_nil _⟩
      | error e => dsimp only; exact ⟨methodResponse_ok _ _ _, List.forall_mem_nil _⟩
      | panic => dsimp only; exact ⟨internal_ok _ _, List.forall_mem_nil _⟩
    | async =>
      cases o with
      | result raw => dsimp only; exact ⟨methodResponse_ok _ _ _, List.forall_mem_nil _⟩
      | error e => dsimp only; exact ⟨methodResponse_ok _ _ _, List.forall_mem_nil _⟩
      | panic => dsimp only; exact ⟨internal_ok _ _, List.forall_mem_nil _⟩
    | blocking =>
      cases o with
      | result raw => dsimp only; exact ⟨methodResponse_ok _ _ _, List.forall_mem_nil _⟩
      | error e => dsimp only; exact ⟨methodResponse_ok _ _ _, List.forall_mem_nil _⟩
      | panic => dsimp only; exact ⟨internal_ok _ _, List.forall_mem_nil _⟩

/-- **C08 end to end (single message)** — for every message text, configuration and transport:
the reply and every frame a subscription callback wrote directly are within the response limit,
or the too-big error of that call, or a fixed library error. -/
theorem c08_single_end_to_end (cfg : Cfg) (tr : Transport) (sub : Nat) (t : Text) :
    (∀ r, (handleSingle cfg tr sub t).reply = some r → C08Ok r cfg.maxResp) ∧
    (∀ d ∈ (handleSingle cfg tr sub t).direct, C08Ok d cfg.maxResp) := by
  unfold handleSingle
  cases hc : classify t with
  | call rq =>
    have h := callMethod_ok cfg tr sub rq
    refine ⟨?_, h.2⟩
    intro r hr
    simp only [] at hr
    split at hr
    · cases hr
    · cases hr; exact h.1
  | notif n => simp
  | invalid id =>
    refine ⟨?_, by simp⟩
    intro r hr
    cases hr
    exact .inr (.inr ⟨_, _, rfl, .inr (.inr (.inl rfl))⟩)
  | garbage =>
    refine ⟨?_, by simp⟩
    intro r hr
    cases hr
    exact .inr (.inr ⟨_, _, rfl, .inr (.inr (.inr rfl))⟩)

/-- the batch loop keeps the builder invariant for *every* entry list (subscriptions included),
a failed append yields exactly the -32011 object, and every directly written frame is allowed -/
theorem runBatch_inv (cfg : Cfg) (tr : Transport) : ∀ (es : List Entry) (st : BatchState) (rs : List Text),
    BatchInv st.b rs cfg.maxResp → (∀ d ∈ st.direct, C08Ok d cfg.maxResp) →
    (∀ st', runBatch cfg tr es st = .ok st' →
        (∃ rs', BatchInv st'.b (rs ++ rs') cfg.maxResp) ∧ ∀ d ∈ st'.direct, C08Ok d cfg.maxResp) ∧
    (∀ err st', runBatch cfg tr es st = .error (err, st') →
        err = errorResponse .null (rejectErr reject_too_big_batch_response cfg.maxResp) ∧
        ∀ d ∈ st'.direct, C08Ok d cfg.maxResp) := by
  intro es
  induction es with
  | nil =>
    intro st rs hinv hd
    refine ⟨?_, ?_⟩
    · intro st' h
      simp only [runBatch] at h
      cases h
      exact ⟨⟨[], by simpa using hinv⟩, hd⟩
    · intro err st' h
      simp [runBatch] at h
  | cons e es ih =>
    intro st rs hinv hd
    cases e with
    | call rq =>
      have hc := callMethod_ok cfg tr st.sub rq
      have hd1 : ∀ d ∈ st.direct ++ (callMethod cfg tr st.sub rq).direct, C08Ok d cfg.maxResp := by
        intro d hm
        rcases List.mem_append.mp hm with h | h
        · exact hd d h
        · exact hc.2 d h
      by_cases hfit : byteLen (callMethod cfg tr st.sub rq).resp + byteLen st.b.result + 1 ≤ cfg.maxResp
      · obtain ⟨b', hb', hinv'⟩ := (c08_append st.b rs (callMethod cfg tr st.sub rq).resp cfg.maxResp hinv).1 hfit
        have ih' := ih { st with direct := st.direct ++ (callMethod cfg tr st.sub rq).direct,
                                 invoked := st.invoked ++ (callMethod cfg tr st.sub rq).invoked,
                                 sub := (callMethod cfg tr st.sub rq).nextSub, b := b' }
                      (rs ++ [(callMethod cfg tr st.sub rq).resp]) hinv' hd1
        refine ⟨?_, ?_⟩
        · intro st' h
          simp only [runBatch, hb'] at h
          obtain ⟨⟨rs', hr⟩, hdd⟩ := ih'.1 st' h
          exact ⟨⟨(callMethod cfg tr st.sub rq).resp :: rs', by simpa using hr⟩, hdd⟩
        · intro err st' h
          simp only [runBatch, hb'] at h
          exact ih'.2 err st' h
      · have hover : cfg.maxResp < byteLen (callMethod cfg tr st.sub rq).resp + byteLen st.b.result + 1 := by omega
        have hb' := (c08_append st.b rs (callMethod cfg tr st.sub rq).resp cfg.maxResp hinv).2 hover
        refine ⟨?_, ?_⟩
        · intro st' h
          simp [runBatch, hb'] at h
        · intro err st' h
          simp only [runBatch, hb'] at h
          cases h
          exact ⟨rfl, hd1⟩
    | notif =>
      have ih' := ih { st with gotNotif := true } rs hinv hd
      refine ⟨?_, ?_⟩
      · intro st' h
        simp only [runBatch] at h
        exact ih'.1 st' h
      · intro err st' h
        simp only [runBatch] at h
        exact ih'.2 err st' h
    | invalid id =>
      by_cases hfit : byteLen (errorResponse id (errNoData INVALID_REQUEST_CODE INVALID_REQUEST_MSG)) + byteLen st.b.result + 1 ≤ cfg.maxResp
      · obtain ⟨b', hb', hinv'⟩ := (c08_append st.b rs _ cfg.maxResp hinv).1 hfit
        have ih' := ih { st with b := b' } (rs ++ [errorResponse id (errNoData INVALID_REQUEST_CODE INVALID_REQUEST_MSG)]) hinv' hd
        refine ⟨?_, ?_⟩
        · intro st' h
          simp only [runBatch, hb'] at h
          obtain ⟨⟨rs', hr⟩, hdd⟩ := ih'.1 st' h
          exact ⟨⟨_ :: rs', by simpa using hr⟩, hdd⟩
        · intro err st' h
          simp only [runBatch, hb'] at h
          exact ih'.2 err st' h
      · have hover : cfg.maxResp < byteLen (errorResponse id (errNoData INVALID_REQUEST_CODE INVALID_REQUEST_MSG)) + byteLen st.b.result + 1 := by omega
        have hb' := (c08_append st.b rs _ cfg.maxResp hinv).2 hover
        refine ⟨?_, ?_⟩
        · intro st' h
          simp [runBatch, hb'] at h
        · intro err st' h
          simp only [runBatch, hb'] at h
          cases h
          exact ⟨rfl, hd⟩

/-- what a batch may be answered with besides an array within the limit -/
def IsBatchLibError (cfg : Cfg) (r : Text) : Prop :=
  r = errorResponse .null (errNoData BATCHES_NOT_SUPPORTED_CODE BATCHES_NOT_SUPPORTED_MSG) ∨
  r = parseErrorResp ∨
  (∃ lim, r = errorResponse .null (rejectErr reject_too_big_batch_request lim)) ∨
  r = errorResponse .null (rejectErr reject_too_big_batch_response cfg.maxResp) ∨
  r = errorResponse .null (errNoData INVALID_REQUEST_CODE INVALID_REQUEST_MSG)

/-- the part of `handle_rpc_call` after the batch loop -/
theorem batch_tail (cfg : Cfg) (tr : Transport) (sub : Nat) (es : List Entry) :
    let out : MsgOut := match runBatch cfg tr es ⟨BatchB.new, false, [], [], sub⟩ with
      | .error (err, st) => ⟨some err, st.direct, st.invoked, st.sub⟩
      | .ok st =>
        if st.b.isEmpty && st.gotNotif then ⟨none, st.direct, st.invoked, st.sub⟩
        else ⟨some st.b.finish, st.direct, st.invoked, st.sub⟩
    (∀ r, out.reply = some r → byteLen r ≤ cfg.maxResp ∨ IsBatchLibError cfg r) ∧
    (∀ d ∈ out.direct, C08Ok d cfg.maxResp) := by
  have hinv := runBatch_inv cfg tr es ⟨BatchB.new, false, [], [], sub⟩ [] (batch_inv_new cfg.maxResp) (by simp)
  intro out
  cases hr : runBatch cfg tr es ⟨BatchB.new, false, [], [], sub⟩ with
  | error p =>
    obtain ⟨err, st⟩ := p
    have h := hinv.2 err st hr
    have ho : out = ⟨some err, st.direct, st.invoked, st.sub⟩ := by simp only [out, hr]
    rw [ho]
    refine ⟨?_, h.2⟩
    intro r hrr
    cases hrr
    exact .inr (.inr (.inr (.inr (.inl h.1))))
  | ok st =>
    obtain ⟨⟨rs', hi⟩, hd⟩ := hinv.1 st hr
    simp only [List.nil_append] at hi
    by_cases hc : (st.b.isEmpty && st.gotNotif) = true
    · have ho : out = ⟨none, st.direct, st.invoked, st.sub⟩ := by simp only [out, hr, hc]; rfl
      rw [ho]
      exact ⟨by simp, hd⟩
    · have ho : out = ⟨some st.b.finish, st.direct, st.invoked, st.sub⟩ := by simp only [out, hr, hc]; rfl
      rw [ho]
      refine ⟨?_, hd⟩
      intro r hrr
      cases hrr
      by_cases hne : rs' = []
      · subst hne
        have : st.b.result = [91] := by simpa [commaCat] using hi.1
        right; right; right; right
        simp [BatchB.finish, this]
      · exact .inl (c08_finish st.b rs' cfg.maxResp hi hne).2

/-- **C08 end to end (batch)** — for every batch text, configuration and transport, with no side
condition: the reply is within the response limit or one of the five fixed batch-level errors
(id null), and every frame written directly by a subscription callback during the batch is
allowed as for a single call. -/
theorem c08_batch_end_to_end (cfg : Cfg) (tr : Transport) (sub : Nat) (t : Text) :
    (∀ r, (handleBatch cfg tr sub t).reply = some r → byteLen r ≤ cfg.maxResp ∨ IsBatchLibError cfg r) ∧
    (∀ d ∈ (handleBatch cfg tr sub t).direct, C08Ok d cfg.maxResp) := by
  unfold handleBatch
  cases hb : cfg.batch with
  | disabled =>
    refine ⟨?_, by simp⟩
    intro r hr
    cases hr
    exact .inr (.inl rfl)
  | limit n =>
    simp only []
    cases he : elements t with
    | none =>
      refine ⟨?_, by simp⟩
      intro r hr; cases hr
      exact .inr (.inr (.inl rfl))
    | some es =>
      simp only []
      split
      · refine ⟨?_, by simp⟩
        intro r hr; cases hr
        exact .inr (.inr (.inr (.inl ⟨_, rfl⟩)))
      · exact batch_tail cfg tr sub (es.map classifyEntry)
  | unlimited =>
    simp only []
    cases he : elements t with
    | none =>
      refine ⟨?_, by simp⟩
      intro r hr; cases hr
      exact .inr (.inr (.inl rfl))
    | some es =>
      simp only []
      split
      · rename_i h; simp at h
      · exact batch_tail cfg tr sub (es.map classifyEntry)

/-- a frame / body the transports may emit: allowed for a call, allowed for a batch, or the
transport's own fixed rejection (request too big, parse error) -/
def C08Frame (cfg : Cfg) (r : Text) : Prop :=
  C08Ok r cfg.maxResp ∨ IsBatchLibError cfg r ∨
  r = errorResponse .null (rejectErr reject_too_big_request cfg.maxReq)

/-- **C08 end to end (WebSocket)** — every frame queued because of any text message, whatever the
message and the configuration, is within the response limit or one of the fixed library errors. -/
theorem c08_ws_end_to_end (cfg : Cfg) (sub : Nat) (t : Text) :
    ∀ f ∈ (wsMessage cfg sub t).frames, C08Frame cfg f := by
  unfold wsMessage
  split
  · intro f hf
    rw [List.mem_singleton.mp hf]
    exact .inr (.inr rfl)
  · cases hs : sniff 128 0 t with
    | none =>
      intro f hf
      rw [List.mem_singleton.mp hf]
      exact .inr (.inl (.inr (.inl rfl)))
    | some p =>
      obtain ⟨idx, single⟩ := p
      dsimp only
      cases single with
      | true =>
        have h := c08_single_end_to_end cfg .ws sub (t.drop idx)
        intro f hf
        simp only [if_true] at hf
        rcases List.mem_append.mp hf with hd | hr
        · exact .inl (h.2 f hd)
        · cases hrep : (handleSingle cfg .ws sub (t.drop idx)).reply with
          | none => rw [hrep] at hr; simp at hr
          | some r =>
            rw [hrep] at hr
            rw [List.mem_singleton.mp hr]
            exact .inl (h.1 r hrep)
      | false =>
        have h := c08_batch_end_to_end cfg .ws sub (t.drop idx)
        intro f hf
        simp only [Bool.false_eq_true, if_false] at hf
        rcases List.mem_append.mp hf with hd | hr
        · exact .inl (h.2 f hd)
        · cases hrep : (handleBatch cfg .ws sub (t.drop idx)).reply with
          | none => rw [hrep] at hr; simp at hr
          | some r =>
            rw [hrep] at hr
            rw [List.mem_singleton.mp hr]
            rcases h.1 r hrep with hb | hb
            · exact .inl (.inl hb)
            · exact .inr (.inl hb)

/-- **C08 end to end (HTTP)** — the body of every 200 answer is `null` (acknowledgement), within
the response limit, or one of the fixed library errors; for every method, content type, declared
length and chunking. -/
theorem c08_http_end_to_end (cfg : Cfg) (m : Text) (ct : Option Text) (cl : Option Nat) (chunks : List Text) :
    (httpCall cfg m ct cl chunks).status = 200 →
    (httpCall cfg m ct cl chunks).body = tNull ∨ C08Frame cfg (httpCall cfg m ct cl chunks).body := by
  unfold httpCall
  split
  · intro h; simp at h
  · split
    · intro h; simp at h
    · cases hb : readBody cl chunks cfg.maxReq with
      | tooLarge => intro h; simp at h
      | malformed => intro h; simp at h
      | ok data single =>
        intro _
        dsimp only
        cases single with
        | true =>
          simp only [if_true]
          cases hrep : (handleSingle cfg .http 0 data).reply with
          | none => exact .inl rfl
          | some r => exact .inr (.inl ((c08_single_end_to_end cfg .http 0 data).1 r hrep))
        | false =>
          simp only [Bool.false_eq_true, if_false]
          cases hrep : (handleBatch cfg .http 0 data).reply with
          | none => exact .inl rfl
          | some r =>
            rcases (c08_batch_end_to_end cfg .http 0 data).1 r hrep with hb' | hb'
            · exact .inr (.inl (.inl hb'))
            · exact .inr (.inr (.inl hb'))

-- non-vacuity: a reply exactly at the limit is sent unchanged, one byte more is replaced
example : byteLen (respText (.num 1) (.result [49])) = 35 := by decide
example : methodResponse (.num 1) (.result [49]) 35 = respText (.num 1) (.result [49]) := by decide
example : methodResponse (.num 1) (.result [49]) 34 = tooBigResponse (.num 1) 34 := by decide

end Jrpc.Srv
