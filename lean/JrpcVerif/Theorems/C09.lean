/-
  C09 — client: on connection failure everything pending fails promptly with the cause.

  Two models are involved.
  * Layer A (Model/ClientMgr.lean): `handleBack` = `handle_recv_message` with its `Fatal` outcomes;
    `backPanics` (Model/ClientTasks.lean) marks the panic sites of that code (`expect`), the id
    arithmetic is `checked_*` and ends in `Fatal` values.
  * Layer B (Model/ClientTasks.lean): send task, read task, shutdown watcher and front-end callers
    as a protocol machine; one `Op` = the code of one actor between two awaits; a disabled op is a
    no-op, so **every** `List Op` is a schedule and the theorems below hold for all of them, from
    every capacity of the front channel.  `repoExitOrder` is the exit sequence of `send_task` as it
    is in /repo (`causeFirst` since fix b02fc5a); `frontFirst` is the sequence before that fix.
  Wall-clock promptness is not a theorem: the model shows that every wait is raced against the
  timer event (`c09_waits_raced`); the real-time bound is a test of the harness.
-/
import JrpcVerif.Proofs.ClientTasksLemmas
namespace Jrpc.ClientTasks
open Jrpc Jrpc.Client

/-! ### C09.1 — no background task panics, for any bytes the server may send -/

/-- For every incoming text and every manager state satisfying the table invariant: no `expect` of
`handle_recv_message` fires, the handler returns `Ok` (`fatal = none`) or `Err` (`fatal = some _`),
and the invariant holds again afterwards (so the claim applies to the next message as well). -/
theorem c09_no_panic (st : Core) (raw : Text) (h : SubsOK st.mgr) :
    backPanics st raw = false ∧
    ((handleBack st raw).fatal = none ∨ ∃ f, (handleBack st raw).fatal = some f) ∧
    SubsOK (handleBack st raw).st.mgr := by
  refine ⟨backPanics_false st raw h, ?_, handleBack_subsOK st raw h⟩
  cases (handleBack st raw).fatal with
  | none => exact Or.inl rfl
  | some f => exact Or.inr ⟨f, rfl⟩

/-- the table invariant is not an assumption about the client: it holds in every state reachable
by any sequence of atomic steps (front-end operations, send-task steps, incoming texts, consumer
steps, abandoned futures) — so no reachable state and no text make the read task panic -/
theorem c09_no_panic_reachable (st : St) (hr : Reachable st) (raw : Text) :
    backPanics st.core raw = false ∧ Reachable (Client.step st (.recv raw)).st :=
  ⟨backPanics_false st.core raw (subsOK_reachable st hr), reachable_step st _ hr⟩

/-- the id arithmetic of the batch path stays inside u64: after the loop over a reply array the
tracked range is `lo ≤ hi ≤ 2^64-1`, and `range.end.checked_add(1)` is the exact successor (still a
u64) or — exactly at `hi = 2^64-1` — the error `InvalidRequestId::Invalid`, never a wrapped value -/
theorem c09_batch_arith_in_u64 (st : Core) (es : List Text) (acc : ArrAcc) (f : Option Fatal) (lo hi : Nat)
    (hl : arrayLoop { st := st } es = (acc, f)) (hr : acc.range = some (lo, hi)) :
    lo ≤ hi ∧ hi ≤ u64Max ∧
    ((rangeEnd hi = .ok (hi + 1) ∧ hi + 1 ≤ u64Max) ∨ (hi = u64Max ∧ rangeEnd hi = .err (.invalidNum hi))) := by
  have := arrayLoop_rangeFits es _ _ _ hl (by simp [RangeFits])
  rw [hr] at this
  exact ⟨this.1, this.2, rangeEnd_fits hi this.2⟩

-- non-vacuity: a fresh client satisfies the invariant; so does one with an active subscription,
-- and a close notification for it goes through the `expect` site without firing it
example : SubsOK ({} : Mgr) := subsOK_empty
example : Reachable (St.init 4 false) := reachable_init 4 false
example : closeExpectFails
    { mgr := { requests := [(.num 0, .sub (.num 1) 0 [117])], subs := [(.num 7, .num 0)] }, cap := 1 } (.num 7) = false := by
  decide
-- the invariant is what protects the `expect`: a reverse-index entry pointing at nothing would fire it
example : closeExpectFails { mgr := { requests := [], subs := [(.num 7, .num 0)] }, cap := 1 } (.num 7) = true := by
  decide
example : ¬ SubsOK { requests := [], subs := [(.num 7, .num 0)] } := by
  intro h
  obtain ⟨⟨_, _, _, hq⟩, _⟩ := h (.num 7) (.num 0) (by decide)
  simp [alookup] at hq
-- F-9 (fixed by bfa8984): largest id 2^64-1 — pre-fix `range.end += 1` overflowed (panic)
example : rangeEnd 18446744073709551615 = .err (.invalidNum 18446744073709551615) := by decide
example : rangeEnd 18446744073709551614 = .ok 18446744073709551615 := by decide

/-! ### C09.2 — what makes the client abandon the connection -/

/-- not a JSON-RPC message: (a) the first non-whitespace byte is neither `{` nor `[`; (b) an object
that is no response, subscription message or notification; (c) a `[`-text that is no array of
values.  In each case the read task ends with `Unparseable`, nothing is completed, nothing changes. -/
theorem c09_fatal_not_json_rpc (st : Core) (raw : Text)
    (h : (firstNonWs raw ≠ some 123 ∧ firstNonWs raw ≠ some 91) ∨
         (firstNonWs raw = some 123 ∧ classifyIncoming raw = .garbage) ∨
         (firstNonWs raw = some 91 ∧ elements raw = none)) :
    (handleBack st raw).fatal = some .unparseable ∧ (handleBack st raw).st = st ∧ (handleBack st raw).effs = [] := by
  rcases h with ⟨h1, h2⟩ | ⟨h1, h2⟩ | ⟨h1, h2⟩
  · exact fatal_other_first_byte st raw h1 h2
  · exact fatal_garbage_object st raw h1 h2
  · exact fatal_bad_array st raw h1 h2

/-- an array containing an element that is no JSON-RPC message ends the read task -/
theorem c09_fatal_garbage_element (st : Core) (raw : Text) (es : List Text) (h1 : firstNonWs raw = some 91)
    (h2 : elements raw = some es) (hg : ∃ e ∈ es, classifyIncoming e = .garbage) :
    (handleBack st raw).fatal.isSome = true :=
  fatal_garbage_element st raw es h1 h2 hg

/-- a response whose id matches nothing pending (no entry, or the entry of an active subscription) -/
theorem c09_fatal_unknown_id (st : Core) (raw : Text) (r : Response) (hd : decodeResponse raw = some r)
    (hs : st.mgr.requestStatus r.id = .invalid ∨ st.mgr.requestStatus r.id = .sub) :
    (handleBack st raw).fatal = some (.notPending r.id) ∧ (handleBack st raw).st = st ∧ (handleBack st raw).effs = [] :=
  fatal_unknown_id st raw r hd hs

/-- the empty array -/
theorem c09_fatal_empty_batch (st : Core) (raw : Text) (h1 : firstNonWs raw = some 91) (h2 : elements raw = some []) :
    (handleBack st raw).fatal = some (.batch .empty) ∧ (handleBack st raw).st = st ∧ (handleBack st raw).effs = [] :=
  fatal_empty_array st raw h1 h2

/-- a reply array whose largest id is 2^64-1 (F-9): `Invalid("18446744073709551615")`, and the array
completes nothing beyond what its notifications did; a reply array whose id range matches no
pending batch: `NotPendingRequest("lo..hi+1")` -/
theorem c09_fatal_batch_ids (st : Core) (raw : Text) (es : List Text) (acc : ArrAcc) (lo hi : Nat)
    (h1 : firstNonWs raw = some 91) (h2 : elements raw = some es)
    (hl : arrayLoop { st := st } es = (acc, none)) (hr : acc.range = some (lo, hi)) :
    (hi = u64Max → (handleBack st raw).fatal = some (.batch (.invalidNum u64Max))) ∧
    (hi ≠ u64Max → alookup (lo, hi + 1) acc.st.mgr.batches = none →
      (handleBack st raw).fatal = some (.batch (.notPendingRange lo (hi + 1)))) := by
  constructor
  · intro e; subst e; exact (fatal_max_id st raw es acc lo h1 h2 hl hr).1
  · intro hne hb; exact fatal_unknown_batch st raw es acc lo hi h1 h2 hl hr hne hb

/-- the three "client abandons the connection" causes named in the property, in one statement -/
theorem c09_fatal_classes (st : Core) (raw : Text) :
    ((firstNonWs raw ≠ some 123 ∧ firstNonWs raw ≠ some 91) → (handleBack st raw).fatal = some .unparseable) ∧
    ((firstNonWs raw = some 123 ∧ classifyIncoming raw = .garbage) → (handleBack st raw).fatal = some .unparseable) ∧
    (∀ r, decodeResponse raw = some r →
        (st.mgr.requestStatus r.id = .invalid ∨ st.mgr.requestStatus r.id = .sub) →
        (handleBack st raw).fatal = some (.notPending r.id)) ∧
    (firstNonWs raw = some 91 → elements raw = some [] → (handleBack st raw).fatal = some (.batch .empty)) :=
  ⟨fun h => (fatal_other_first_byte st raw h.1 h.2).1,
   fun h => (fatal_garbage_object st raw h.1 h.2).1,
   fun r hd hs => (fatal_unknown_id st raw r hd hs).1,
   fun h1 h2 => (fatal_empty_array st raw h1 h2).1⟩

-- non-vacuity on decoded replies (texts are exercised by the correspondence)
example : (handleArray { cap := 1 } []).fatal = some (.batch .empty) := by decide

/-! ### C09.3 — the cause is recorded before the front-end channel closes -/

/-- what must hold in every reachable state -/
structure GoodEnd (s : State) : Prop where
  /-- `is_connected() = false` ⇒ the slot holds a cause, it is the error of one of the background
  tasks, and `on_disconnect()` returns `RestartNeeded` of exactly it -/
  recorded : s.frontClosed = true →
    ∃ c, s.cause = some c ∧ c ∈ s.failures ∧ onDisconnect s = some (.restart c)
  /-- no front-end future ever resolved with the placeholder -/
  noPlaceholder : ∀ i : Nat, s.fronts[i]? ≠ some (FPhase.resolved .placeholder)
  /-- every `RestartNeeded(c)` handed to a caller carries the recorded cause -/
  sameCause : ∀ (i : Nat) (c : Cause), s.fronts[i]? = some (FPhase.resolved (.restart c)) → s.cause = some c

/-- the full statement for an exit order: all schedules, all front-channel capacities -/
def CauseBeforeClose (o : ExitOrder) : Prop :=
  ∀ (fcap : Nat) (ops : List Op), GoodEnd (run o (init fcap) ops)

theorem goodEnd_of_safe (o : ExitOrder) (fcap : Nat) (ops : List Op)
    (hs : o = .causeFirst ∨ noSendFailure ops = true) : GoodEnd (run o (init fcap) ops) := by
  have hi := inv_run o ops _ (inv_init o fcap)
  have hc := cinv_run o ops hs _ (inv_init o fcap) (cinv_init fcap)
  refine ⟨?_, hc.noPh, hi.restart⟩
  intro hfc
  have hcs := hi.doneCause (hc.closed hfc)
  cases hcz : (run o (init fcap) ops).cause with
  | none => simp [hcz] at hcs
  | some c => exact ⟨c, rfl, hi.causeReal c hcz, by simp [onDisconnect, slotResult, hfc, hcz]⟩

/-- **the code as it is in /repo**: in every reachable state of every schedule, a closed front
channel implies a recorded cause; no caller and no `on_disconnect` ever sees the placeholder -/
theorem c09_cause_before_close : CauseBeforeClose repoExitOrder :=
  fun fcap ops => goodEnd_of_safe repoExitOrder fcap ops (Or.inl rfl)

/-- for either exit order the only histories that could violate it are those with a transport
*send-side* failure (`sender.send` / `send_ping` returning `Err`) -/
theorem c09_cause_before_close_partial (o : ExitOrder) (fcap : Nat) (ops : List Op)
    (h : noSendFailure ops = true) : GoodEnd (run o (init fcap) ops) :=
  goodEnd_of_safe o fcap ops (Or.inr h)

/-- the exit sequence before fix b02fc5a does **not** satisfy the statement (F-12): a call whose
transport send fails closes the front channel; a second call made before the watcher has the
result reads an empty slot -/
def f12History : List Op := [.frontNew true, .sendTake, .sendErr 7, .frontNew true, .frontReadError 1]

theorem c09_old_exit_order_refuted : ¬ CauseBeforeClose .frontFirst := by
  intro h
  exact (h 4 f12History).noPlaceholder 1 (by decide)

-- the same history on the current order: the second call is simply queued (front channel open)
example : (run repoExitOrder (init 4) f12History).fronts[1]? = some FPhase.queued := by decide
example : (run .frontFirst (init 4) f12History).frontClosed = true ∧ (run .frontFirst (init 4) f12History).cause = none := by
  decide
example : noSendFailure f12History = false := by decide

/-- a send failure run to the end on the current order -/
def sendFailureHistory : List Op :=
  [.frontNew true, .sendTake, .sendErr 7, .frontNew true, .sendReport, .watch, .sendWatcherGone,
   .sendTransportClosed, .readSeesClosed, .readReport, .frontDrop 0, .frontReadError 0, .frontDrop 1, .frontReadError 1]

example :
    let s := run repoExitOrder (init 4) sendFailureHistory
    s.frontClosed = true ∧ s.cause = some (.sendFailed 7) ∧ s.sendP = .done ∧ s.readP = .done ∧ s.transportClosed = true ∧
    s.fronts = [.resolved (.restart (.sendFailed 7)), .resolved (.restart (.sendFailed 7))] ∧
    onDisconnect s = some (.restart (.sendFailed 7)) := by decide

/-- a receive failure run to the end (any order) -/
def recvFailureHistory : List Op :=
  [.frontNew true, .sendTake, .sendOk, .readErr (.recvFailed 3), .readReport, .watch, .sendSeesClosed, .sendReport,
   .sendWatcherGone, .sendTransportClosed, .frontDrop 0, .frontReadError 0]

example :
    let s := run repoExitOrder (init 4) recvFailureHistory
    s.frontClosed = true ∧ s.cause = some (.recvFailed 3) ∧ s.sendP = .done ∧ s.readP = .done ∧
    s.fronts = [.resolved (.restart (.recvFailed 3))] := by decide
example : noSendFailure recvFailureHistory = true := by decide

/-! ### C09.4 — when both tasks have returned, everything pending fails with the cause -/

/-- Both background tasks have returned (the manager and with it every pending oneshot is dropped).
Then `is_connected()` is false, a cause `c` is recorded and `on_disconnect()` returns it, and every
front-end operation is either already resolved (never with the placeholder) or — once it runs
(`settleFront`: woken if blocked on the full channel, sees the dropped oneshot, reads the slot) —
resolves with `RestartNeeded(c)`. -/
theorem c09_all_pending_fail (fcap : Nat) (ops : List Op)
    (hs : (run repoExitOrder (init fcap) ops).sendP = .done) (hr : (run repoExitOrder (init fcap) ops).readP = .done) :
    isConnected (run repoExitOrder (init fcap) ops) = false ∧
    ∃ c, (run repoExitOrder (init fcap) ops).cause = some c ∧
      onDisconnect (run repoExitOrder (init fcap) ops) = some (.restart c) ∧
      ∀ i, i < (run repoExitOrder (init fcap) ops).fronts.length →
        (∃ r, (run repoExitOrder (init fcap) ops).fronts[i]? = some (FPhase.resolved r) ∧ r ≠ .placeholder ∧
            (settleFront (run repoExitOrder (init fcap) ops) i).fronts[i]? = some (FPhase.resolved r)) ∨
        ((∀ r, (run repoExitOrder (init fcap) ops).fronts[i]? ≠ some (FPhase.resolved r)) ∧
            (settleFront (run repoExitOrder (init fcap) ops) i).fronts[i]? = some (FPhase.resolved (.restart c))) := by
  have hi := inv_run repoExitOrder ops _ (inv_init repoExitOrder fcap)
  have hc := cinv_run repoExitOrder ops (Or.inl rfl) _ (inv_init repoExitOrder fcap) (cinv_init fcap)
  have h0 := settleFront_resolves repoExitOrder _ hi hc hs hr
  have hfc : (run repoExitOrder (init fcap) ops).frontClosed = true := hi.pastC (by rw [hs]; rfl)
  have hcs := hi.doneCause (hc.closed hfc)
  cases hcz : (run repoExitOrder (init fcap) ops).cause with
  | none => simp [hcz] at hcs
  | some c =>
    refine ⟨by simp [isConnected, hfc], c, rfl, by simp [onDisconnect, slotResult, hfc, hcz], ?_⟩
    intro i hlt
    obtain ⟨_, c', hc', hres⟩ := h0 i hlt
    rw [hcz] at hc'
    simp at hc'; subst hc'
    exact hres

/-- a future that has resolved keeps its value whatever happens afterwards (no second completion) -/
theorem c09_resolved_is_final (o : ExitOrder) (s : State) (ops : List Op) (i : Nat) (r : FRes)
    (h : s.fronts[i]? = some (FPhase.resolved r)) : (run o s ops).fronts[i]? = some (FPhase.resolved r) := by
  induction ops generalizing s with
  | nil => exact h
  | cons op rest ih => exact ih _ (resolved_stable_step o s op i r h)

/-- open subscription streams end: after the manager is dropped every sink is gone, so a stream
yields what is still buffered and then `None` -/
theorem c09_streams_end (st : St) (c : ChanId) (ch : Chan) (h : (dropManager st.core).chans[c]? = some ch)
    (ha : ch.receiverAlive = true) :
    ch.senderAlive = false ∧
    (Client.step { st with core := dropManager st.core } (.next c)).out =
      match ch.buf with
      | p :: _ => .item p
      | [] => .ended ch.lagged :=
  ⟨dropManager_chan st.core c ch h, next_after_drop st c ch h ha⟩

-- non-vacuity: the hypotheses of `c09_all_pending_fail` are reachable, with a pending call
example : (run repoExitOrder (init 4) (recvFailureHistory.take 10)).sendP = .done ∧
    (run repoExitOrder (init 4) (recvFailureHistory.take 10)).readP = .done ∧
    (run repoExitOrder (init 4) (recvFailureHistory.take 10)).fronts = [.inManager] := by decide

/-- no stalling: after **any** history in which a background task ended with an error, the thirteen
background steps of `shutdownSchedule` (watcher, reports, the `closed` arms, transport close) bring
both tasks to their end — provided the transport returns from `send` and from `close`, which are
the schedule's `sendOk` / `sendTransportClosed` steps; then `c09_all_pending_fail` applies -/
theorem c09_shutdown_completes (o : ExitOrder) (fcap : Nat) (ops : List Op)
    (hf : (run o (init fcap) ops).failures ≠ []) :
    (run o (init fcap) (ops ++ shutdownSchedule)).sendP = .done ∧
    (run o (init fcap) (ops ++ shutdownSchedule)).readP = .done := by
  have hi := inv_run o ops _ (inv_init o fcap)
  have hl := linv_run o ops _ (inv_init o fcap) (linv_init o fcap)
  rw [run_append]
  exact shutdown_completes o _ hi hl (hl.failed hf)

-- non-vacuity: a receive error while a call is pending and the send task is inside the transport send
example : (run repoExitOrder (init 4) [.frontNew true, .sendTake, .readErr .peerClosed]).failures ≠ [] := by decide
example :
    let s := run repoExitOrder (init 4) ([.frontNew true, .sendTake, .readErr .peerClosed] ++ shutdownSchedule)
    s.sendP = .done ∧ s.readP = .done ∧ s.cause = some .peerClosed ∧ s.frontClosed = true := by decide

/-! ### C09.4b — on a healthy connection an answered future resolves: nothing is dropped silently -/

/-- A well-formed response bearing the id under which a call or a subscribe waits — whatever its
payload: a result that is no subscription id (object, array, bool, null, fraction, negative number),
an error object with any data, an id already in use — is handled without a fatal error, and the
waiting future's oneshot is **sent on** in this very step (`complete`; `dropped` only if the caller
had already abandoned the future).  The manager never lets go of a waiting oneshot silently, so on
a connection that stays up no future can be left with a dropped sender (which would park it in
`read_error`, outside the request timeout, until the connection ends). -/
theorem c09_answer_resolves_future (st : Core) (raw : Text) (r : Response) (t : Ticket)
    (hd : decodeResponse raw = some r)
    (hw : alookup r.id st.mgr.requests = some (.pendingCall (some t)) ∨
          ∃ uid um, alookup r.id st.mgr.requests = some (.pendingSub uid t um)) :
    (handleBack st raw).fatal = none ∧
    ∃ o, Effect.complete t o ∈ (handleBack st raw).effs ∨ Effect.dropped t o ∈ (handleBack st raw).effs :=
  answered_handleBack st raw r t hd hw

-- non-vacuity: a subscribe waiting under id 0 answered by `{"id":0,"result":{"x":1}}` (decoded): the
-- future gets the parse error, the reserved slot is released, nothing fatal
example :
    let st : Core := { mgr := { requests := [(.num 1, .pendingCall none),
                                              (.num 0, .pendingSub (.num 1) { op := 0, wire := .num 0 } [117])] }, cap := 1 }
    let r : Response := { jsonrpc := true, id := .num 0, payload := .result [123, 34, 120, 34, 58, 49, 125] }
    (match processSingleResponse st r with
     | .ok (st', effs) => (st'.mgr.requests, effs)
     | .error _ => ([], [])) = ([], [.complete { op := 0, wire := .num 0 } .badSubId]) := by decide

/-! ### C09.5 — first cause wins -/

/-- the slot is written at most once, and once it holds `c` it holds `c` in every later state of
every continuation: all failing callers and `on_disconnect` see the same cause -/
theorem c09_cause_written_once (o : ExitOrder) (fcap : Nat) (ops more : List Op) (c : Cause) :
    (run o (init fcap) ops).causeWrites ≤ 1 ∧
    ((run o (init fcap) ops).cause = some c → (run o (init fcap) (ops ++ more)).cause = some c) := by
  have hi := inv_run o ops _ (inv_init o fcap)
  refine ⟨hi.writes, ?_⟩
  intro hc
  rw [run_append]
  exact cause_stable_run o more c _ hi hc

-- a later error of the other task does not replace the cause: the read task fails first, then the
-- transport send fails as well
example :
    let s := run repoExitOrder (init 4)
      [.frontNew true, .sendTake, .readErr (.recvFailed 3), .readReport, .watch, .sendErr 7, .sendReport, .sendWatcherGone]
    s.cause = some (.recvFailed 3) ∧ s.causeWrites = 1 ∧ s.failures = [.recvFailed 3, .sendFailed 7] := by decide

/-! ### C09.6 — no front-end wait is unbounded in the model -/

/-- every unresolved front-end operation is either inside the `select` with the timer (the timer
event resolves it with `RequestTimeout`), or inside `read_error`, whose wait `conn.closed()` is
already over, so reading the slot resolves it — or it is the application itself awaiting
`on_disconnect()` (`watching`), which by its meaning lasts as long as the connection -/
theorem c09_waits_raced (o : ExitOrder) (fcap : Nat) (ops : List Op) (i : Nat) (p : FPhase)
    (hp : (run o (init fcap) ops).fronts[i]? = some p) :
    (∃ r, p = .resolved r) ∨
    (frontTimer (run o (init fcap) ops) i).fronts[i]? = some (FPhase.resolved .timeout) ∨
    (p = .disconnected ∧
      (frontReadError (run o (init fcap) ops) i).fronts[i]? = some (FPhase.resolved (slotResult (run o (init fcap) ops)))) ∨
    p = .watching :=
  wait_raced o _ (inv_run o ops _ (inv_init o fcap)) i p hp

example : (frontTimer (run repoExitOrder (init 4) [.frontNew true, .sendTake]) 0).fronts[0]? =
    some (FPhase.resolved .timeout) := by decide

end Jrpc.ClientTasks
