/-
  C10 — graceful stop answers received calls and reports stopped only when done.
  All theorems are about the machine in Model/Stop.lean, for every cap, every number of
  connections and calls and EVERY interleaving of its atomic steps (`Reachable`).
-/
import JrpcVerif.Proofs.StopLemmas
namespace Jrpc.Stop

/-- the handler of the call ran (or its call task at least existed) -/
def wasReceived (p : CPhase) : Bool := p != .sent

/-! ### 1. answers before `stopped()` -/

/-- `stopped()` resolves only after the accept loop and every connection task have finished. -/
theorem c10_stopped_after_tasks (s : State) (hr : Reachable s) (h : s.resolved = true) :
    s.accepting = false ∧ ∀ x ∈ s.conns, x.phase = .closed :=
  (reachable_inv s hr).resolvedClosed h

/-- Once `stopped()` has resolved, every call that the server ever took off a connection whose
client stayed connected — in particular every call whose handler started — has had its answer
handed to the transport. (A call that is still `sent` was never read: no handler ran for it.) -/
theorem c10_answers_before_stopped (s : State) (hr : Reachable s) (h : s.resolved = true)
    (x : Conn) (hx : x ∈ s.conns) (hp : x.peerGone = false) (k : Call) (hk : k ∈ s.calls) (hc : k.conn = x.id)
    (hs : wasReceived k.phase = true) : k.phase = .onWire := by
  have hi := reachable_inv s hr
  have hcl := (hi.resolvedClosed h).2 x hx
  have h1 := hi.closedClean x hx k hk hc hcl hp
  have h2 := hi.noDrop x hx k hk hc hp
  cases hph : k.phase <;> simp_all [wasReceived, isPending]

/-- The same at the level of one connection task, stop or no stop: a connection task never
finishes while a call it took from a connected client is unanswered. -/
theorem c10_conn_closes_clean (s : State) (hr : Reachable s)
    (x : Conn) (hx : x ∈ s.conns) (hcl : x.phase = .closed) (hp : x.peerGone = false)
    (k : Call) (hk : k ∈ s.calls) (hc : k.conn = x.id) : k.phase = .sent ∨ k.phase = .onWire := by
  have hi := reachable_inv s hr
  have h1 := hi.closedClean x hx k hk hc hcl hp
  have h2 := hi.noDrop x hx k hk hc hp
  cases hph : k.phase <;> simp_all [isPending]

/-! ### 1b. answers precede the close; where a call stops counting as pending -/

/-- Answers precede the close.  Whenever the task of a connection whose client stayed connected
is ABOUT to finish — the WS writer may exit (it then sends the close frame and the connection is
dropped) or the HTTP connection future may complete — every call taken off that connection
already has its answer on the wire.  Together with the bounded queue this is what forces the
drain to wait for answers that still wait for room in the queue. -/
theorem c10_answers_precede_close (s : State) (hr : Reachable s) (x : Conn) (hx : x ∈ s.conns)
    (hp : x.peerGone = false)
    (he : enabled s (.writerExit x.id) = true ∨ enabled s (.httpClose x.id) = true)
    (k : Call) (hk : k ∈ s.calls) (hc : k.conn = x.id) : k.phase = .sent ∨ k.phase = .onWire := by
  have hi := reachable_inv s hr
  have hnd := hi.noDrop x hx k hk hc hp
  rcases he with he | he
  · simp only [enabled, connSat_iff] at he
    have hg := he.2 x hx rfl
    simp only [Bool.and_eq_true, Bool.or_eq_true, beq_iff_eq, hp] at hg
    obtain ⟨⟨_, hws⟩, hq⟩ := hg
    have hq' : noQueued s x.id = true := by rcases hq with h | h; exact h; cases h
    have hpend := hi.wstopClean x hx k hk hc hws hp
    simp only [noQueued, List.all_eq_true, Bool.or_eq_true, bne_iff_ne, ne_eq] at hq'
    have := hq' k hk
    cases hph : k.phase <;> simp_all [isPending]
  · simp only [enabled, connSat_iff] at he
    have hg := he.2 x hx rfl
    simp only [Bool.and_eq_true, Bool.or_eq_true, beq_iff_eq, bne_iff_ne, ne_eq, hp] at hg
    obtain ⟨⟨hhttp, _⟩, hq⟩ := hg
    have hq' : noInflight s x.id = true := by rcases hq with h | h; exact h; cases h
    have hsh := hi.httpShape x hx k hk hc hhttp
    simp only [noInflight, List.all_eq_true, Bool.or_eq_true, bne_iff_ne, ne_eq] at hq'
    have := hq' k hk
    cases hph : k.phase <;> simp_all [isInflight]

/-- The release point of the pending-call guard (ws.rs: the call task's clone of the service is
dropped only after `sink.send(json)` returned): as long as a call of a connected client is
received, executing, or ANSWERED BUT NOT YET QUEUED (its task waits for room in the bounded writer
queue), the drain of its connection cannot complete — the writer is not told to stop. -/
theorem c10_drain_waits_for_queueing (s : State) (x : Conn) (hx : x ∈ s.conns) (hph : x.phase = .draining)
    (hp : x.peerGone = false) (k : Call) (hk : k ∈ s.calls) (hc : k.conn = x.id)
    (hpend : isPending k.phase = true) : enabled s (.wsDrained x.id) = false := by
  cases he : enabled s (.wsDrained x.id)
  · rfl
  · exfalso
    simp only [enabled, connSat_iff] at he
    have hg := he.2 x hx rfl
    simp only [Bool.and_eq_true, Bool.or_eq_true, beq_iff_eq, hp, hph] at hg
    obtain ⟨_, hq⟩ := hg
    rcases hq with ⟨_, h | h⟩ | ⟨h, _⟩
    · simp only [noPending, List.all_eq_true, Bool.or_eq_true, bne_iff_ne, ne_eq, Bool.not_eq_true'] at h
      rcases h k hk with h1 | h1
      · exact h1 hc
      · rw [h1] at hpend; cases hpend
    · cases h
    · cases h

/-! ### 2. no late execution -/

/-- (a) A call first written after `stopped()` resolved is never taken off the wire, let alone
executed. (b) On a connection whose client stayed connected no handler ever starts after
`stopped()` resolved. (c) After resolution no connection is accepted and no step whatsoever makes
a call leave the `sent` phase. -/
theorem c10_no_late_execution (s : State) (hr : Reachable s) :
    (∀ k ∈ s.calls, k.sentLate = true → k.phase = .sent) ∧
    (∀ x ∈ s.conns, x.peerGone = false → ∀ k ∈ s.calls, k.conn = x.id → k.startLate = false) ∧
    (s.resolved = true → ∀ c tr, step s (.connOpen c tr) = (s, .disabled)) ∧
    (s.resolved = true → ∀ k, step s (.wsRead k) = (s, .disabled) ∧ step s (.httpRead k) = (s, .disabled)) := by
  have hi := reachable_inv s hr
  refine ⟨fun k hk hl => (hi.sentLate k hk hl).2, fun x hx hp k hk hc => hi.startLate x hx k hk hc hp, ?_, ?_⟩
  · intro h c tr
    have := (hi.resolvedClosed h).1
    simp [step, enabled, this]
  · intro h k
    have hall := (hi.resolvedClosed h).2
    have hcc := hi.callConn
    constructor
    · have : enabled s (.wsRead k) = false := by
        cases he : enabled s (.wsRead k)
        · rfl
        · exfalso
          simp only [enabled, callSat_iff, connSat_iff, Bool.and_eq_true, beq_iff_eq] at he
          obtain ⟨⟨y, hy, hyk⟩, hall'⟩ := he
          obtain ⟨_, ⟨x, hx, hxc⟩, hx'⟩ := hall' y hy hyk
          have := hall x hx
          have := hx' x hx hxc
          simp_all
      simp [step, this]
    · have : enabled s (.httpRead k) = false := by
        cases he : enabled s (.httpRead k)
        · rfl
        · exfalso
          simp only [enabled, callSat_iff, connSat_iff, Bool.and_eq_true, beq_iff_eq] at he
          obtain ⟨⟨y, hy, hyk⟩, hall'⟩ := he
          obtain ⟨⟨_, ⟨x, hx, hxc⟩, hx'⟩, _⟩ := hall' y hy hyk
          have := hall x hx
          have := hx' x hx hxc
          simp_all
      simp [step, this]

/-! ### 3. stop is idempotent, never panics -/

/-- Stopping twice, or stopping and dropping the handles in any order, leads to the same state
as one `stop`; a later `stop` on an already stopping server changes nothing; the only outcomes of
`stop()` are `Ok` and `Err(AlreadyStopped)` (the latter exactly when no receiver is left). -/
theorem c10_stop_idempotent (s : State) :
    (step (step s .stop).1 .stop).1 = (step s .stop).1 ∧
    (step (step s .stop).1 .dropHandles).1 = (step s .stop).1 ∧
    (step (step s .dropHandles).1 .stop).1 = (step s .dropHandles).1 ∧
    (step s .dropHandles).1 = (step s .stop).1 ∧
    (s.stopFlag = true → (step s .stop).1 = s ∧ (step s .dropHandles).1 = s) ∧
    (∀ ops, run s (.stop :: .stop :: ops) = run s (.stop :: ops)) ∧
    ((step s .stop).2 = (if noReceivers s then .alreadyStopped else .ok)) := by
  refine ⟨by simp [step, enabled, apply], by simp [step, enabled, apply], by simp [step, enabled, apply],
    by simp [step, enabled, apply], ?_, ?_, ?_⟩
  · intro h
    cases s
    simp_all [step, enabled, apply]
  · intro ops
    simp [run, step, enabled, apply]
  · simp [step, enabled]

/-- `stopped()` cannot be un-resolved and the stop signal cannot be withdrawn: no operation
sequence whatsoever clears them. -/
theorem c10_stop_monotone (s : State) (ops : List Op) :
    (s.stopFlag = true → (run s ops).stopFlag = true) ∧ (s.resolved = true → (run s ops).resolved = true) := by
  induction ops generalizing s with
  | nil => exact ⟨id, id⟩
  | cons op r ih =>
    have hstep : (s.stopFlag = true → (step s op).1.stopFlag = true) ∧ (s.resolved = true → (step s op).1.resolved = true) := by
      unfold step
      split
      · cases op <;> simp [apply, setCallPhase, setConnPhase] <;> intros <;> simp_all
      · exact ⟨id, id⟩
    exact ⟨fun h => (ih _).1 (hstep.1 h), fun h => (ih _).2 (hstep.2 h)⟩

/-! ### 4. progress (liveness, partial) -/

/-- No deadlock after stop: in every reachable state in which the server has been told to stop
some step of the server itself — where a running handler returning counts as such a step — is
enabled; as long as anything is unfinished it is a step of an unfinished task, and once the accept
loop and every connection task have finished it is `resolve`.  (Nothing is required of the
environment: no client has to send, read or disconnect.)  `c10_progress_terminates` below bounds
the number of such steps. -/
theorem c10_progress (s : State) (hr : Reachable s) (hcap : 0 < s.cap) (hs : s.stopFlag = true) :
    ∃ op, internal op = true ∧ enabled s op = true := by
  have hi := reachable_inv s hr
  by_cases ha : s.accepting = true
  · exact ⟨.acceptExit, rfl, by simp [enabled, hs, ha]⟩
  by_cases hcl : allClosed s = true
  · exact ⟨.resolve, rfl, by simp_all [enabled, noReceivers]⟩
  -- some connection task is still alive
  have : ∃ x ∈ s.conns, x.phase ≠ .closed := by
    simp only [allClosed, List.all_eq_true, beq_iff_eq] at hcl
    apply Classical.byContradiction
    intro hne
    exact hcl (fun x hx => Classical.byContradiction (fun h => hne ⟨x, hx, h⟩))
  obtain ⟨x, hx, hxc⟩ := this
  have htp := hi.trPhase x hx
  -- a queued answer of `x` can always be written
  have hwriter : x.tr = .ws → ∀ k ∈ s.calls, k.conn = x.id → k.phase = .queued →
      ∃ op, internal op = true ∧ enabled s op = true := by
    intro hws k hk hkc hq
    refine ⟨.writerStep k.id, rfl, ?_⟩
    simp only [enabled]
    apply callSat_of_mem hi hk
    have : connSat s k.conn (fun x => x.tr == .ws && x.phase != .closed) = true := by
      rw [hkc]; exact connSat_of_mem hi hx (by simp [hws, hxc])
    simp [hq, this]
  cases hph : x.phase with
  | closed => exact absurd hph hxc
  | «open» =>
    exact ⟨.observeStop x.id, rfl, by
      simp only [enabled, hs, Bool.true_and]
      exact connSat_of_mem hi hx (by simp [hph])⟩
  | graceful =>
    have hhttp : x.tr = .http := by
      cases ht : x.tr with
      | http => rfl
      | ws => exact absurd hph (htp.2 ht)
    by_cases hin : noInflight s x.id = true
    · exact ⟨.httpClose x.id, rfl, by
        simp only [enabled]
        exact connSat_of_mem hi hx (by simp [hhttp, hph, hin])⟩
    · obtain ⟨k, hk, hkk⟩ := exists_of_all_false _ _ (by simpa [noInflight] using hin :
        s.calls.all (fun y => y.conn != x.id || !isInflight y.phase) = false)
      simp only [Bool.or_eq_false_iff, bne_eq_false_iff_eq, Bool.not_eq_false'] at hkk
      obtain ⟨hkc, hinf⟩ := hkk
      simp only [isInflight, Bool.or_eq_true, beq_iff_eq] at hinf
      rcases hinf with hst | han
      · exact ⟨.handlerReturn k.id, rfl, by
          simp only [enabled]; exact callSat_of_mem hi hk (by simp [hst])⟩
      · refine ⟨.httpWrite k.id, rfl, ?_⟩
        simp only [enabled]
        apply callSat_of_mem hi hk
        have : connSat s k.conn (fun x => x.tr == .http && x.phase != .closed) = true := by
          rw [hkc]; exact connSat_of_mem hi hx (by simp [hhttp, hph])
        simp [han, this]
  | draining =>
    have hws : x.tr = .ws := by
      cases ht : x.tr with
      | ws => rfl
      | http => exact absurd hph (htp.1 ht).1
    by_cases hpd : noPending s x.id = true
    · exact ⟨.wsDrained x.id, rfl, by
        simp only [enabled]
        exact connSat_of_mem hi hx (by simp [hws, hph, hpd])⟩
    · obtain ⟨k, hk, hkk⟩ := exists_of_all_false _ _ (by simpa [noPending] using hpd :
        s.calls.all (fun y => y.conn != x.id || !isPending y.phase) = false)
      simp only [Bool.or_eq_false_iff, bne_eq_false_iff_eq, Bool.not_eq_false'] at hkk
      obtain ⟨hkc, hpen⟩ := hkk
      simp only [isPending, Bool.or_eq_true, beq_iff_eq] at hpen
      rcases hpen with (hrc | hst) | han
      · exact ⟨.callStart k.id, rfl, by
          simp only [enabled]; exact callSat_of_mem hi hk (by simp [hrc])⟩
      · exact ⟨.handlerReturn k.id, rfl, by
          simp only [enabled]; exact callSat_of_mem hi hk (by simp [hst])⟩
      · -- the answer goes into the queue, or the queue is full and the writer can take one out
        by_cases hq : queuedCount s x.id < s.cap
        · refine ⟨.enqueue k.id, rfl, ?_⟩
          simp only [enabled]
          apply callSat_of_mem hi hk
          have : connSat s k.conn (fun x => x.tr == .ws && (x.phase == .closed || queuedCount s k.conn < s.cap)) = true := by
            rw [hkc]; exact connSat_of_mem hi hx (by simp [hws, hq])
          simp [han, this]
        · have hpos : 0 < queuedCount s x.id := by omega
          simp only [queuedCount, List.length_pos_iff_exists_mem, List.mem_filter, Bool.and_eq_true, beq_iff_eq] at hpos
          obtain ⟨k', hk', hkc', hq'⟩ := hpos
          exact hwriter hws k' hk' hkc' hq'
  | writerStop =>
    have hws : x.tr = .ws := by
      cases ht : x.tr with
      | ws => rfl
      | http => exact absurd hph (htp.1 ht).2
    by_cases hq : noQueued s x.id = true
    · exact ⟨.writerExit x.id, rfl, by
        simp only [enabled]
        exact connSat_of_mem hi hx (by simp [hws, hph, hq])⟩
    · obtain ⟨k, hk, hkk⟩ := exists_of_all_false _ _ (by simpa [noQueued] using hq :
        s.calls.all (fun y => y.conn != x.id || y.phase != .queued) = false)
      simp only [Bool.or_eq_false_iff, bne_eq_false_iff_eq] at hkk
      obtain ⟨hkc, hqq⟩ := hkk
      exact hwriter hws k hk hkc hqq

/-- Every step the server takes by itself before `stopped()` resolves strictly decreases the
work measure (`Proofs/StopLemmas.lean`: rank of every call's and connection's phase + the two
flags). -/
theorem c10_progress_terminates (s : State) (hn : s.resolved = false) (op : Op) (hint : internal op = true)
    (he : enabled s op = true) : measure (step s op).1 < measure s := by
  simp only [step, he, if_true]
  exact measure_decreases s hn op hint he

/-- a run of server steps: every op is a step of the server itself, enabled where it is taken,
and none is taken after resolution -/
def InternalRun : State → List Op → Prop
  | _, [] => True
  | s, op :: r => internal op = true ∧ enabled s op = true ∧ s.resolved = false ∧ InternalRun (step s op).1 r

/-- Hence the shutdown is bounded: left alone by its environment (no new input, handlers
return), the server can take at most `measure s` steps before `stopped()` has resolved — and by
`c10_progress` it can always take one until then. -/
theorem c10_bounded_shutdown (s : State) (ops : List Op) (h : InternalRun s ops) : ops.length ≤ measure s := by
  induction ops generalizing s with
  | nil => exact Nat.zero_le _
  | cons op r ih =>
    obtain ⟨hint, he, hn, hr⟩ := h
    have h1 := ih _ hr
    have h2 := c10_progress_terminates s hn op hint he
    simp only [List.length_cons]
    omega

/-! ### non-vacuity -/

set_option maxRecDepth 8192

/-- one HTTP and one WS connection, a call executing on each, stop lands while they execute; both
are answered, the tasks finish, then — and only then — `stopped()` can resolve -/
private def demoOps : List Op :=
  [.connOpen 1 .http, .connOpen 2 .ws, .callSend 1 10, .callSend 2 20, .httpRead 10, .wsRead 20, .callStart 20,
   .stop, .acceptExit, .observeStop 1, .observeStop 2,
   .resolve,                      -- too early: disabled
   .httpClose 1, .wsDrained 2,    -- both disabled: calls in flight
   .handlerReturn 10, .handlerReturn 20, .httpWrite 10, .enqueue 20,
   .wsDrained 2,
   .writerExit 2,                 -- disabled: the queue is not empty yet
   .writerStep 20, .writerExit 2, .httpClose 1, .resolve]

example :
    let s := run (init 4) demoOps
    s.resolved = true ∧ s.calls.map (·.phase) = [.onWire, .onWire] ∧ s.conns.map (·.phase) = [.closed, .closed] := by
  decide

/-- the early `resolve` and the early closes in that run are refused -/
example :
    let s := run (init 4) (demoOps.take 11)
    (step s .resolve).2 = .disabled ∧ (step s (.httpClose 1)).2 = .disabled ∧ (step s (.wsDrained 2)).2 = .disabled ∧
      s.stopFlag = true ∧ s.resolved = false ∧ 0 < s.cap := by
  decide

example : Reachable (run (init 4) demoOps) := ⟨4, demoOps, rfl⟩

/-- hypotheses of `c10_answers_before_stopped` are met by that run (and its conclusion is the
non-trivial `onWire`) -/
example :
    let s := run (init 4) demoOps
    ∃ x ∈ s.conns, ∃ k ∈ s.calls, x.peerGone = false ∧ k.conn = x.id ∧ wasReceived k.phase = true ∧ s.resolved = true := by
  decide

/-- a call written after resolution stays `sent`; a connection attempt after resolution is refused -/
example :
    let s := run (init 4) (demoOps ++ [.callSend 2 30, .wsRead 30, .callStart 30, .connOpen 3 .http])
    s.calls.map (fun k => (k.id, k.phase, k.sentLate)) = [(30, .sent, true), (20, .onWire, false), (10, .onWire, false)] ∧
      s.conns.length = 2 := by
  decide

/-- the peer-gone exception is real: the client of the WS call disappears mid-call, the server
stops, `stopped()` resolves although that call was never answered -/
example :
    let s := run (init 4)
      [.connOpen 2 .ws, .callSend 2 20, .wsRead 20, .callStart 20, .peerGone 2, .stop, .acceptExit,
       .wsDrained 2, .writerExit 2, .resolve, .handlerReturn 20, .enqueue 20]
    s.resolved = true ∧ s.calls.map (·.phase) = [.dropped] := by
  decide

/-- second `stop` after everything finished reports `AlreadyStopped`, before that `Ok` -/
example :
    (step (run (init 4) demoOps) .stop).2 = .alreadyStopped ∧ (step (run (init 4) (demoOps.take 9)) .stop).2 = .ok := by
  decide

/-- `c10_bounded_shutdown` on the tail of the demo run: 12 server steps from a state of measure 18 -/
example :
    measure (run (init 4) (demoOps.take 8)) = 18 ∧
    InternalRun (run (init 4) (demoOps.take 8))
      [.acceptExit, .observeStop 1, .observeStop 2, .handlerReturn 10, .handlerReturn 20, .httpWrite 10,
       .enqueue 20, .wsDrained 2, .writerStep 20, .writerExit 2, .httpClose 1, .resolve] := by
  refine ⟨by decide, ?_⟩
  simp only [InternalRun]
  decide

/-- burst on a queue of ONE: three calls execute on one WS connection when stop lands; all three
handlers return at the same instant, only one answer fits the queue.  While the other two wait for
room (`answered`) the drain cannot complete and the writer cannot exit; once the writer has made
room step by step everything is on the wire and only then the connection closes. -/
private def burstOps : List Op :=
  [.connOpen 1 .ws, .callSend 1 11, .callSend 1 12, .callSend 1 13, .wsRead 11, .wsRead 12, .wsRead 13,
   .callStart 11, .callStart 12, .callStart 13, .stop, .acceptExit, .observeStop 1,
   .handlerReturn 11, .handlerReturn 12, .handlerReturn 13, .enqueue 11,
   .enqueue 12]                    -- disabled: the queue (cap 1) is full

example :
    let s := run (init 1) burstOps
    s.calls.map (fun k => (k.id, k.phase)) = [(13, .answered), (12, .answered), (11, .queued)] ∧
    enabled s (.enqueue 12) = false ∧ enabled s (.wsDrained 1) = false ∧ enabled s (.writerExit 1) = false ∧
    enabled s (.writerStep 11) = true := by decide

example :
    let s := run (init 1) (burstOps ++ [.writerStep 11, .wsDrained 1, .enqueue 12, .wsDrained 1, .writerStep 12,
      .enqueue 13, .writerExit 1, .wsDrained 1, .writerExit 1, .writerStep 13, .writerExit 1, .resolve])
    s.resolved = true ∧ s.calls.map (fun k => (k.id, k.phase)) = [(13, .onWire), (12, .onWire), (11, .onWire)] := by decide

/-- hypotheses of `c10_drain_waits_for_queueing` / `c10_answers_precede_close` are met in that run -/
example :
    let s := run (init 1) burstOps
    ∃ x ∈ s.conns, ∃ k ∈ s.calls, x.phase = .draining ∧ x.peerGone = false ∧ k.conn = x.id ∧ k.phase = .answered := by
  decide
example :
    let s := run (init 1) (burstOps ++ [.writerStep 11, .enqueue 12, .writerStep 12, .enqueue 13, .wsDrained 1, .writerStep 13])
    enabled s (.writerExit 1) = true ∧ s.calls.map (·.phase) = [.onWire, .onWire, .onWire] := by decide

end Jrpc.Stop
