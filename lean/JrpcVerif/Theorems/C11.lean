/-
  C11 — connections never exceed max_connections and slots are reused.

  * `c11_wiring`   over the tables GENERATED from /repo on every run (Gen/ConnWiring.lean):
                   every `ConnectionGuard::new(..)` is sized by `max_connections`, the public knob
                   reaches that field, there is exactly one acquisition point and it answers 429.
  * `c11_inv`, `c11_bound`, `c11_refuse`, `c11_reuse*`  over the hand-written guard machine
                   (Model/ConnGuard.lean) for ALL configurations and ALL operation sequences.
-/
import JrpcVerif.Proofs.ConnLemmas
import JrpcVerif.Gen.ConnWiring
namespace Jrpc.ConnGuard
open Jrpc.Gen

/-! ### wiring (generated) -/

/-- the configuration name a guard-size expression denotes: a `ServerConfig` field, or — inside a
builder method `fn <name>(mut self, <p>: u32)` — the knob that method is -/
def srcName : GuardSrc → Option String
  | .cfgField f => some f
  | .setterParam fn => some fn
  | .literal _ => none
  | .unknown _ => none

/-- Every guard in server.rs is sized by `max_connections` (both the `Server::start` accept loop
and the tower-service assembly, plus the service builder's own `max_connections(limit)` knob, which
does create a guard from its parameter); the `ServerConfigBuilder::max_connections(n)` knob reaches
`ServerConfig.max_connections` unchanged; `ConnectionGuard::new(limit)` sizes its semaphore with
exactly `limit` and records it as `max`; permits are taken at one place only, and a missing permit
is answered with status 429; every `TowerServiceBuilder` method that rebuilds the builder
(`set_rpc_middleware`, `set_http_middleware`, … — whichever exist) passes `self.conn_guard` and
`self.conn_id` through (only the knobs `max_connections` / `connection_id` themselves may put a new
value there, and the former is sized by its own parameter), so the limit and the sharing of ONE
guard between all clones of a builder survive any order of setter calls, and `max_connections` is
the only method that assigns a guard. -/
theorem c11_wiring :
    connWiringTranslatorOk = true ∧
    (∀ s ∈ connGuardSites, srcName s.src = some "max_connections") ∧
    (∃ s ∈ connGuardSites, s.encl = "start_inner" ∧ s.src = .cfgField "max_connections") ∧
    (∃ s ∈ connGuardSites, s.encl = "to_service_builder" ∧ s.src = .cfgField "max_connections") ∧
    (∃ s ∈ connGuardSites, s.encl = "max_connections" ∧ s.src = .setterParam "max_connections") ∧
    ("max_connections", "max_connections") ∈ cfgBuildFlows ∧
    ("max_connections", "max_connections") ∈ cfgSetterFlows ∧
    guardNewShape = ("param", "param") ∧
    tryAcquireSites.length = 1 ∧
    (∀ a ∈ tryAcquireSites, refusalStatus.lookup a.2.2 = some 429) ∧
    (∀ r ∈ towerBuilderRebuilds,
      (r.guard = .carried ∨ r.encl = "max_connections") ∧ (r.connId = .carried ∨ r.encl = "connection_id")) ∧
    (∀ a ∈ towerBuilderAssigns, a.2 = "conn_guard" → a.1 = "max_connections") := by
  decide

/-! ### the invariant -/

/-- `avail + active = max` after every operation sequence, for every configuration -/
theorem c11_inv (cfg : Cfg) (ops : List Op) :
    (run (init cfg) ops).avail + active (run (init cfg) ops) = cfg.max ∧ (run (init cfg) ops).cfg = cfg := by
  have h := run_inv (init cfg) ops (inv_init cfg)
  have hc := run_cfg (init cfg) ops
  simp only [Inv, hc] at h
  exact ⟨h, hc⟩

/-- hence at no instant are more than `max` connections being served, and the semaphore never
holds more than `max` permits -/
theorem c11_bound (cfg : Cfg) (ops : List Op) :
    active (run (init cfg) ops) ≤ cfg.max ∧ (run (init cfg) ops).avail ≤ cfg.max := by
  have := (c11_inv cfg ops).1
  constructor <;> omega

/-- every output reports the value of `available_connections()` of the state it leads to -/
theorem c11_out_avail (s : State) (op : Op) :
    match (step s op).2 with
    | .started a | .refused a | .denied a | .rejected a | .upgraded a | .released a => a = (step s op).1.avail
    | .noop => (step s op).1 = s := by
  cases op <;> simp only [step, arrive, grant, release]
  all_goals repeat' split
  all_goals simp_all

/-! ### refusal -/

/-- the tag of an arrival op -/
def arrivalTag : Op → Option Nat
  | .httpArrive c => some c
  | .wsUpgradeStart c _ => some c
  | _ => none

/-- A connection attempt (plain request or upgrade request, whatever the configuration enables
and whether or not the handshake is acceptable) is answered 429 ⇔ no slot is free at arrival
⇔ `max` connections are being served; a refused attempt changes nothing — in particular nothing
is appended to the invocation log (no handler, no WS task) — and conversely any attempt that
appends to the log took a slot. -/
theorem c11_refuse (s : State) (op : Op) (c : Nat) (ha : arrivalTag op = some c)
    (hr : Reachable s) (hf : holds s.conns c = false) :
    ((∃ a, (step s op).2 = .refused a) ↔ s.avail = 0) ∧
    (s.avail = 0 ↔ active s = s.cfg.max) ∧
    ((∃ a, (step s op).2 = .refused a) → (step s op).1 = s ∧ (step s op).2 = .refused 0) ∧
    ((step s op).1.log ≠ s.log →
      (step s op).1.avail + 1 = s.avail ∧ holds (step s op).1.conns c = true ∧ (step s op).1.log = c :: s.log) := by
  have hi := reachable_inv s hr
  simp only [Inv] at hi
  refine ⟨?_, ?_, ?_, ?_⟩
  · cases op <;> simp only [arrivalTag] at ha <;> try contradiction
    all_goals (cases ha; simp only [step, arrive, grant, hf]; repeat' split)
    all_goals simp_all
  · simp only [active]; omega
  · cases op <;> simp only [arrivalTag] at ha <;> try contradiction
    all_goals (cases ha; simp only [step, arrive, grant, hf]; repeat' split)
    all_goals simp_all
  · cases op <;> simp only [arrivalTag] at ha <;> try contradiction
    all_goals (cases ha; simp only [step, arrive, grant, hf]; repeat' split)
    all_goals simp_all [holds]
    all_goals omega

/-- an enabled, well-formed attempt on a server with a free slot is admitted -/
theorem c11_admit (s : State) (c : Nat) (hf : holds s.conns c = false) (hp : 0 < s.avail) :
    (s.cfg.enableHttp = true → (step s (.httpArrive c)).2 = .started (s.avail - 1)) ∧
    (s.cfg.enableWs = true → (step s (.wsUpgradeStart c true)).2 = .started (s.avail - 1)) := by
  have : (s.avail == 0) = false := by simp; omega
  constructor <;> intro h <;> simp [step, arrive, grant, hf, this, h]

/-! ### slots are reused -/

/-- From any reachable state, whatever happens next: once no connection is being served any more
every slot is free again. -/
theorem c11_reuse (s : State) (hr : Reachable s) (ops : List Op) (hd : (run s ops).conns = []) :
    (run s ops).avail = s.cfg.max := by
  have h := reachable_inv _ (reachable_run s ops hr)
  simp only [Inv, hd, run_cfg] at h
  simpa using h

/-- Every exit the code has for a connection being served — response produced, request future
dropped by a peer reset, upgrade failed, and each way a WebSocket session ends — is enabled and
frees exactly that connection's slot. -/
theorem c11_reuse_every_exit (s : State) (hr : Reachable s) (x : Conn) (hx : x ∈ s.conns) (k : Nat) :
    (step s (exitOp x k)).2 = .released (s.avail + 1) ∧
    (step s (exitOp x k)).1.avail = s.avail + 1 ∧
    active (step s (exitOp x k)).1 + 1 = active s ∧
    holds (step s (exitOp x k)).1.conns x.id = false := by
  have hu := reachable_unique s hr
  have hp := phaseOf_mem s.conns x hu hx
  rw [step_exitOp_mem s x k hu hx]
  refine ⟨rfl, rfl, ?_, ?_⟩
  · simpa [active] using length_removeConn s.conns x.id x.phase hp
  · have : ∀ (cs : List Conn), UniqueIds cs → holds (removeConn cs x.id) x.id = false := by
      intro cs hcs
      induction cs with
      | nil => rfl
      | cons y r ih =>
        simp only [removeConn]
        split
        · rename_i h
          have : y.id = x.id := by simpa using h
          rw [← this]; exact hcs.1
        · rename_i h
          simp only [holds]
          simp [h, ih hcs.2]
    exact this _ hu

/-- Letting every connection being served finish, each by an arbitrary exit, empties the server
and frees all `max` slots. -/
theorem c11_reuse_drain (s : State) (hr : Reachable s) (pick : Nat → Nat) :
    (run s (drainOps s.conns pick)).conns = [] ∧ (run s (drainOps s.conns pick)).avail = s.cfg.max := by
  have hi := reachable_inv s hr
  simp only [Inv] at hi
  rw [run_drain]
  exact ⟨rfl, hi⟩

/-- one round: `max` fresh requests arrive, then everything being served finishes somehow -/
def round (pick : Nat → Nat) (b : Nat) (s : State) : State :=
  run (run s (fillOps b s.cfg.max)) (drainOps (run s (fillOps b s.cfg.max)).conns pick)

def rounds (pick : Nat → Nat) (b : Nat) : Nat → State → State
  | 0, s => s
  | n + 1, s => rounds pick b n (round pick b s)

/-- The limit can be reached again indefinitely: from any reachable state in which nothing is
being served, after any number of fill/drain rounds (any exits) `max` fresh attempts are all
admitted once more, the server is then exactly full, and the next attempt is refused. -/
theorem c11_reuse_forever (s : State) (hr : Reachable s) (hd : s.conns = []) (hh : s.cfg.enableHttp = true)
    (pick : Nat → Nat) (b n : Nat) :
    let t := rounds pick b n s
    t.conns = [] ∧ t.avail = s.cfg.max ∧ t.cfg = s.cfg ∧
    (∀ o ∈ outs t (fillOps b t.cfg.max), ∃ a, o = Out.started a) ∧
    active (run t (fillOps b t.cfg.max)) = s.cfg.max ∧
    (step (run t (fillOps b t.cfg.max)) (.httpArrive (b + t.cfg.max))).2 = .refused 0 := by
  induction n generalizing s with
  | zero =>
    simp only [rounds]
    have hi := reachable_inv s hr
    simp only [Inv, hd] at hi
    have hav : s.avail = s.cfg.max := by simpa using hi
    have hf := fill_admitted s b s.cfg.max hh (by rw [hd]; exact below_nil b) (by omega)
    obtain ⟨h1, h2, h3, h4⟩ := hf
    refine ⟨hd, hav, trivial, h1, ?_, ?_⟩
    · simp [active, h3, hd]
    · have hfull : (run s (fillOps b s.cfg.max)).avail = 0 := by omega
      by_cases hho : holds (run s (fillOps b s.cfg.max)).conns (b + s.cfg.max) = true
      · -- cannot happen (tags used are b … b+max-1), but the claim does not need it:
        -- a full server refuses before looking at anything else only for fresh tags; for a tag in
        -- use the model answers `noop`, so exclude it by freshness
        exfalso
        have hbelow : Below (run s (fillOps b s.cfg.max)).conns (b + s.cfg.max) := by
          have : ∀ (t : State) (b k : Nat), Below t.conns b → Below (run t (fillOps b k)).conns (b + k) := by
            intro t b k
            induction k generalizing t b with
            | zero => intro h; simpa [fillOps, run] using h
            | succ k ih =>
              intro h
              have hstepB : Below (step t (.httpArrive b)).1.conns (b + 1) := by
                simp only [step, arrive, grant]
                repeat' split
                all_goals first
                  | (intro x hx; have := h x hx; omega)
                  | (intro x hx
                     rcases List.mem_cons.mp hx with rfl | hr
                     · simp
                     · have := h x hr; omega)
              have := ih _ (b + 1) hstepB
              simpa [fillOps, run, Nat.add_assoc, Nat.add_comm 1 k] using this
          exact this s b s.cfg.max (by rw [hd]; exact below_nil b)
        have := not_holds_of_below _ _ hbelow
        rw [this] at hho; cases hho
      · have hho' : holds (run s (fillOps b s.cfg.max)).conns (b + s.cfg.max) = false := by
          cases h : holds (run s (fillOps b s.cfg.max)).conns (b + s.cfg.max) <;> simp_all
        simp [step, arrive, hho', hfull]
  | succ n ih =>
    -- one round leads to a reachable, drained state with the same configuration
    have hround : Reachable (round pick b s) := by
      unfold round
      exact reachable_run _ _ (reachable_run s _ hr)
    have hdr := c11_reuse_drain (run s (fillOps b s.cfg.max)) (reachable_run s _ hr) pick
    have hcfg : (round pick b s).cfg = s.cfg := by simp [round, run_cfg]
    have hconns : (round pick b s).conns = [] := hdr.1
    have := ih (round pick b s) hround hconns (by rw [hcfg]; exact hh)
    simpa [rounds, hcfg] using this

/-! ### non-vacuity -/

private def cfg2 : Cfg := { max := 2 }

/-- the invariant on a concrete mixed history: request, session, failed upgrade, 429, exits -/
example :
    outs (init cfg2)
      [.httpArrive 1, .wsUpgradeStart 2 true, .httpArrive 3, .wsUpgradeDone 2, .httpDone 1,
       .wsUpgradeStart 4 false, .wsUpgradeStart 5 true, .wsUpgradeFail 5, .wsClose 2 .peerReset, .httpArrive 6]
    = [.started 1, .started 0, .refused 0, .upgraded 0, .released 1,
       .rejected 1, .started 0, .released 1, .released 2, .started 1] := by decide

/-- `c11_refuse` is not vacuous: a reachable full state, a fresh tag, both kinds of attempt -/
example : Reachable (run (init cfg2) [.httpArrive 1, .wsUpgradeStart 2 true]) := ⟨cfg2, _, rfl⟩
example :
    let s := run (init cfg2) [.httpArrive 1, .wsUpgradeStart 2 true]
    holds s.conns 7 = false ∧ s.avail = 0 ∧ (step s (.httpArrive 7)).2 = .refused 0 ∧
    (step s (.wsUpgradeStart 7 false)).2 = .refused 0 ∧ (step s (.httpArrive 7)).1.log = s.log := by decide
/-- and with a free slot the same attempts are not refused -/
example :
    let s := run (init cfg2) [.httpArrive 1]
    (step s (.httpArrive 7)).2 = .started 0 ∧ (step s (.wsUpgradeStart 7 false)).2 = .rejected 1 := by decide
/-- limit 0: everything is refused -/
example : outs (init { max := 0 }) [.httpArrive 1, .wsUpgradeStart 2 true] = [.refused 0, .refused 0] := by decide
/-- a disabled transport is answered 403 when a slot is free and 429 when none is -/
example :
    outs (init { max := 1, enableWs := false }) [.wsUpgradeStart 1 true, .httpArrive 2, .wsUpgradeStart 3 true]
    = [.denied 1, .started 0, .refused 0] := by decide

/-- `c11_reuse_every_exit` / `c11_reuse_drain`: a state with one holder in every phase -/
example :
    let s := run (init { max := 3 }) [.httpArrive 1, .wsUpgradeStart 2 true, .wsUpgradeStart 3 true, .wsUpgradeDone 3]
    s.avail = 0 ∧ (run s (drainOps s.conns (fun i => i))).avail = 3 ∧
    drainOps s.conns (fun i => i) = [.wsClose 3 .stopped, .wsUpgradeFail 2, .httpAbort 1] := by decide

/-- `c11_reuse_forever`: three rounds on limit 2 -/
example :
    let t := rounds (fun i => i) 10 3 (init cfg2)
    t.avail = 2 ∧ outs t (fillOps 10 2) = [.started 1, .started 0] := by decide

end Jrpc.ConnGuard
