/-
  C12 — client: batch results are positional (WS client and HTTP client).

  `start` = first id of the batch, `n` = number of entries, `rs` = the decoded response entries of
  the server's reply array in arrival order.  Everything below is for all `start`, `n`, `rs`.
-/
import JrpcVerif.Proofs.ClientLemmas
namespace Jrpc.Client
open Jrpc

/-- every answer bears an id of the batch -/
def AllInRange (start n : Nat) (rs : List Response) : Prop :=
  ∀ r ∈ rs, ∃ k, idNum r.id = some k ∧ start ≤ k ∧ k < start + n

/-- some answer bears id `k` -/
def HasId (k : Nat) (rs : List Response) : Prop := ∃ r ∈ rs, idNum r.id = some k

/-- no id is answered twice -/
def DistinctIds (rs : List Response) : Prop := (rs.map (fun r => idNum r.id)).Nodup

instance (rs : List Response) : Decidable (DistinctIds rs) := by unfold DistinctIds; exact inferInstance

/-- what belongs in the slot of id `k`: the (last) answer bearing that id, else the placeholder -/
def respFor (k : Nat) (rs : List Response) : Response := (lastWith k rs).getD placeholder
def entryFor (k : Nat) (rs : List Response) : Payload :=
  match lastWith k rs with
  | some r => r.payload
  | none => .error placeholderErr

theorem replicate_get {α} (n : Nat) (a : α) (i : Nat) : (List.replicate n a)[i]? = if i < n then some a else none := by
  by_cases h : i < n <;> simp [h]

/-! ### C12.1 — positional -/

/-- WS client, raw responses handed to `batch_request` -/
theorem c12_ws_positional_raw (start n : Nat) (rs out : List Response) (h : wsBatchRaw start n rs = .ok out) :
    out.length = n ∧ ∀ i, i < n → out[i]? = some (respFor (start + i) rs) := by
  unfold wsBatchRaw at h
  cases hr : replyRange none rs with
  | err e => simp [hr] at h
  | ok res =>
    cases res with
    | none => simp [hr] at h
    | some p =>
      obtain ⟨lo, hi⟩ := p
      simp only [hr] at h
      cases he : rangeEnd hi with
      | err e => simp [he] at h
      | ok hi1 =>
        simp only [he] at h
        by_cases hc : lo = start ∧ hi1 = start + n
        · simp only [hc, and_self, if_true] at h
          obtain ⟨h1, h2, _⟩ := fillSlots_spec start rs _ out h
          have hn : start + n - start = n := by omega
          simp only [List.length_replicate, hn] at h1 h2
          refine ⟨h1, fun i hi => ?_⟩
          rw [h2 i, replicate_get]
          unfold respFor
          cases lastWith (start + i) rs <;> simp [hi]
        · simp [hc] at h

theorem countResults_le (l : List Payload) : countResults l ≤ l.length := by
  induction l with
  | nil => simp [countResults]
  | cons p r ih => simp only [countResults, List.length_cons]; split <;> omega

/-- WS client, what `batch_request` returns: exactly `n` entries, the i-th is the outcome of the
answer bearing id `start+i` (or the placeholder error when there is none — never another entry's
answer), and the two counters add up to `n` -/
theorem c12_ws_positional (start n : Nat) (rs : List Response) (b : BatchResult) (h : wsBatch start n rs = .ok b) :
    b.entries.length = n ∧ (∀ i, i < n → b.entries[i]? = some (entryFor (start + i) rs)) ∧
    b.successes + b.failures = n ∧ b.successes = countResults b.entries := by
  unfold wsBatch at h
  cases hr : wsBatchRaw start n rs with
  | err e => simp [hr] at h
  | ok out =>
    simp only [hr, BRes.ok.injEq] at h
    obtain ⟨h1, h2⟩ := c12_ws_positional_raw start n rs out hr
    subst h
    have hl : (out.map (·.payload)).length = n := by simp [h1]
    refine ⟨by simpa [wsEntries] using h1, ?_, ?_, rfl⟩
    · intro i hi
      simp only [wsEntries, List.getElem?_map, h2 i hi, Option.map_some]
      unfold respFor entryFor
      cases lastWith (start + i) rs <;> simp [placeholder]
    · have := countResults_le (out.map (·.payload))
      simp only [wsEntries]
      omega

/-- HTTP client -/
theorem c12_http_positional (start n : Nat) (rs : List Response) (b : BatchResult) (h : httpBatch start n rs = .ok b) :
    b.entries.length = n ∧ (∀ i, i < n → b.entries[i]? = some (entryFor (start + i) rs)) ∧
    b.successes + b.failures = n ∧ b.successes = countResults b.entries := by
  unfold httpBatch at h
  cases hf : httpFill start (List.replicate n (Payload.error placeholderErr)) rs with
  | err e => simp [hf] at h
  | ok slots =>
    simp only [hf, BRes.ok.injEq] at h
    obtain ⟨h1, h2, _⟩ := httpFill_spec start rs _ slots hf
    simp only [List.length_replicate] at h1 h2
    subst h
    refine ⟨h1, ?_, ?_, rfl⟩
    · intro i hi
      show slots[i]? = _
      rw [h2 i, replicate_get]
      unfold entryFor
      cases lastWith (start + i) rs <;> simp [hi]
    · have := countResults_le slots
      show countResults slots + (slots.length - countResults slots) = n
      omega

/-- never another entry's answer: a slot filled with a result holds the payload of an answer that
bears exactly that slot's id -/
theorem c12_entry_is_own (k : Nat) (rs : List Response) :
    (∃ r ∈ rs, idNum r.id = some k ∧ entryFor k rs = r.payload) ∨
    ((∀ r ∈ rs, idNum r.id ≠ some k) ∧ entryFor k rs = .error placeholderErr) := by
  unfold entryFor
  cases h : lastWith k rs with
  | some r =>
    left
    obtain ⟨h1, h2⟩ := lastWith_some_mem k rs r h
    exact ⟨r, h1, h2, rfl⟩
  | none =>
    right
    exact ⟨(lastWith_none_iff k rs).1 h, rfl⟩

/-! ### C12.3 — which replies are accepted at all -/

/-- WS client: the call succeeds exactly when every answer bears an id of the batch **and** both
edge entries are answered (the reply's id range must equal the pending range) -/
theorem c12_ws_ok_iff (start n : Nat) (rs : List Response) :
    (∃ out, wsBatchRaw start n rs = .ok out) ↔
      (AllInRange start n rs ∧ HasId start rs ∧ HasId (start + n - 1) rs ∧ 0 < n ∧ start + n - 1 ≠ u64Max) := by
  constructor
  · intro ⟨out, h⟩
    unfold wsBatchRaw at h
    cases hr : replyRange none rs with
    | err e => simp [hr] at h
    | ok res =>
      cases res with
      | none => simp [hr] at h
      | some p =>
        obtain ⟨lo, hi⟩ := p
        simp only [hr] at h
        cases he : rangeEnd hi with
        | err e => simp [he] at h
        | ok hi1 =>
          simp only [he] at h
          have hne : hi ≠ u64Max ∧ hi1 = hi + 1 := by
            unfold rangeEnd at he
            by_cases c : hi = u64Max <;> simp [c] at he
            exact ⟨c, he.symm⟩
          by_cases hc : lo = start ∧ hi1 = start + n
          · rcases replyRange_none rs _ hr with ⟨_, h0⟩ | ⟨lo', hi', e, b1, b2, b3⟩
            · simp at h0
            · simp at e
              obtain ⟨e1, e2⟩ := e
              subst e1 e2
              obtain ⟨c1, c2⟩ := hc
              obtain ⟨hne1, hne2⟩ := hne
              subst c1
              have hhi : hi = lo + n - 1 := by omega
              have hle : lo ≤ hi := by
                obtain ⟨r, hr1, hr2⟩ := b2
                obtain ⟨k, hk, a, b⟩ := b1 r hr1
                rw [hr2] at hk; simp at hk; omega
              refine ⟨?_, b2, by rw [← hhi]; exact b3, by omega, by rw [← hhi]; exact hne1⟩
              intro r hr1
              obtain ⟨k, hk, a, b⟩ := b1 r hr1
              exact ⟨k, hk, a, by omega⟩
          · simp [hc] at h
  · intro ⟨hall, hlo, hhi, hn, hmax⟩
    have hparse : ∀ r ∈ rs, ∃ k, idNum r.id = some k := fun r hr => by
      obtain ⟨k, hk, _⟩ := hall r hr; exact ⟨k, hk⟩
    obtain ⟨res, hres⟩ := replyRange_ok_of_parse rs hparse none
    rcases replyRange_none rs res hres with ⟨h0, _⟩ | ⟨lo', hi', e, b1, b2, b3⟩
    · obtain ⟨r, hr, _⟩ := hlo
      simp [h0] at hr
    · have hb : ∀ r ∈ rs, ∃ k, idNum r.id = some k ∧ start ≤ k ∧ k ≤ start + n - 1 := fun r hr => by
        obtain ⟨k, hk, a, b⟩ := hall r hr; exact ⟨k, hk, a, by omega⟩
      obtain ⟨e1, e2⟩ := range_unique rs lo' hi' start (start + n - 1) b1 b2 b3 hb hlo hhi
      subst e
      unfold wsBatchRaw
      simp only [hres]
      have he : rangeEnd hi' = .ok (hi' + 1) := by unfold rangeEnd; simp [e2, hmax]
      simp only [he]
      have hc : lo' = start ∧ hi' + 1 = start + n := ⟨e1, by omega⟩
      simp only [hc, and_self, if_true]
      apply fillSlots_ok_of_inRange
      simp only [List.length_replicate]
      intro r hr
      obtain ⟨k, hk, a, b⟩ := hall r hr
      exact ⟨k, hk, a, by omega⟩

/-- HTTP client: the call succeeds exactly when every answer bears an id of the batch -/
theorem c12_http_ok_iff (start n : Nat) (rs : List Response) :
    (∃ b, httpBatch start n rs = .ok b) ↔ AllInRange start n rs := by
  constructor
  · intro ⟨b, h⟩
    unfold httpBatch at h
    cases hf : httpFill start (List.replicate n (Payload.error placeholderErr)) rs with
    | err e => simp [hf] at h
    | ok slots =>
      obtain ⟨_, _, h3⟩ := httpFill_spec start rs _ slots hf
      simpa [AllInRange] using h3
  · intro hall
    obtain ⟨out, ho⟩ := httpFill_ok_of_inRange start rs (List.replicate n (Payload.error placeholderErr))
      (by simpa [AllInRange] using hall)
    exact ⟨{ entries := out, successes := countResults out, failures := out.length - countResults out },
      by unfold httpBatch; simp only [ho]⟩

theorem bres_cases {α} (x : BRes α) : (∃ a, x = .ok a) ∨ (∃ e, x = .err e) := by
  cases x with
  | ok a => exact Or.inl ⟨a, rfl⟩
  | err e => exact Or.inr ⟨e, rfl⟩

/-- an id outside the batch (foreign, or beyond either edge) fails the whole call — both clients -/
theorem c12_foreign_id_rejected (start n : Nat) (rs : List Response) (r : Response) (k : Nat)
    (hr : r ∈ rs) (hk : idNum r.id = some k) (hout : k < start ∨ start + n ≤ k) :
    (∃ e, wsBatch start n rs = .err e) ∧ (∃ e, httpBatch start n rs = .err e) := by
  constructor
  · rcases bres_cases (wsBatchRaw start n rs) with ⟨out, h⟩ | ⟨e, h⟩
    · obtain ⟨hall, _⟩ := (c12_ws_ok_iff start n rs).1 ⟨out, h⟩
      obtain ⟨k', hk', a, b⟩ := hall r hr
      rw [hk] at hk'; simp at hk'; omega
    · exact ⟨e, by unfold wsBatch; simp [h]⟩
  · rcases bres_cases (httpBatch start n rs) with ⟨b, h⟩ | ⟨e, h⟩
    · obtain hall := (c12_http_ok_iff start n rs).1 ⟨b, h⟩
      obtain ⟨k', hk', a, b⟩ := hall r hr
      rw [hk] at hk'; simp at hk'; omega
    · exact ⟨e, h⟩

/-- an id that is no number (null, non-numeric string) fails the whole call — both clients -/
theorem c12_unreadable_id_rejected (start n : Nat) (rs : List Response) (r : Response)
    (hr : r ∈ rs) (hk : idNum r.id = none) :
    (∃ e, wsBatch start n rs = .err e) ∧ (∃ e, httpBatch start n rs = .err e) := by
  constructor
  · rcases bres_cases (wsBatchRaw start n rs) with ⟨out, h⟩ | ⟨e, h⟩
    · obtain ⟨hall, _⟩ := (c12_ws_ok_iff start n rs).1 ⟨out, h⟩
      obtain ⟨k', hk', _⟩ := hall r hr
      rw [hk] at hk'; simp at hk'
    · exact ⟨e, by unfold wsBatch; simp [h]⟩
  · rcases bres_cases (httpBatch start n rs) with ⟨b, h⟩ | ⟨e, h⟩
    · obtain hall := (c12_http_ok_iff start n rs).1 ⟨b, h⟩
      obtain ⟨k', hk', _⟩ := hall r hr
      rw [hk] at hk'; simp at hk'
    · exact ⟨e, h⟩

/-- WS client: a reply lacking the first or the last entry of the batch fails the whole call -/
theorem c12_ws_missing_edge_rejected (start n : Nat) (rs : List Response)
    (h : ¬ HasId start rs ∨ ¬ HasId (start + n - 1) rs) : ∃ e, wsBatch start n rs = .err e := by
  rcases bres_cases (wsBatchRaw start n rs) with ⟨out, ho⟩ | ⟨e, he⟩
  · obtain ⟨_, h1, h2, _⟩ := (c12_ws_ok_iff start n rs).1 ⟨out, ho⟩
    rcases h with h | h <;> contradiction
  · exact ⟨e, by unfold wsBatch; simp [he]⟩

/-- a missing answer (WS: interior; HTTP: any) leaves the placeholder error in exactly that slot;
no shorter list is returned -/
theorem c12_missing_entry_is_error (start n i : Nat) (rs : List Response) (b : BatchResult)
    (h : wsBatch start n rs = .ok b ∨ httpBatch start n rs = .ok b) (hi : i < n)
    (hmiss : ¬ HasId (start + i) rs) :
    b.entries.length = n ∧ b.entries[i]? = some (.error placeholderErr) := by
  have hnone : lastWith (start + i) rs = none :=
    (lastWith_none_iff _ _).2 (fun r hr hk => hmiss ⟨r, hr, hk⟩)
  rcases h with h | h
  · obtain ⟨h1, h2, _⟩ := c12_ws_positional start n rs b h
    exact ⟨h1, by rw [h2 i hi]; simp [entryFor, hnone]⟩
  · obtain ⟨h1, h2, _⟩ := c12_http_positional start n rs b h
    exact ⟨h1, by rw [h2 i hi]; simp [entryFor, hnone]⟩

/-! ### C12.2 — the order of the server's array does not matter -/

theorem nodup_map_inj {α β} (f : α → β) (l : List α) (h : (l.map f).Nodup) (a b : α)
    (ha : a ∈ l) (hb : b ∈ l) (hab : f a = f b) : a = b := by
  induction l with
  | nil => simp at ha
  | cons x xs ih =>
    simp only [List.map_cons, List.nodup_cons, List.mem_map, not_exists, not_and] at h
    obtain ⟨h1, h2⟩ := h
    rcases List.mem_cons.1 ha with rfl | ha' <;> rcases List.mem_cons.1 hb with rfl | hb'
    · rfl
    · exact absurd hab.symm (h1 b hb')
    · exact absurd hab (h1 a ha')
    · exact ih h2 ha' hb'

theorem lastWith_eq_of_distinct (k : Nat) (rs : List Response) (hd : DistinctIds rs) (r : Response)
    (hr : r ∈ rs) (hk : idNum r.id = some k) : lastWith k rs = some r := by
  cases h : lastWith k rs with
  | none => exact absurd hk ((lastWith_none_iff k rs).1 h r hr)
  | some r' =>
    obtain ⟨h1, h2⟩ := lastWith_some_mem k rs r' h
    have := nodup_map_inj (fun r : Response => idNum r.id) rs hd r' r h1 hr (by simp [h2, hk])
    rw [this]

theorem lastWith_perm (k : Nat) (rs rs' : List Response) (hp : rs.Perm rs') (hd : DistinctIds rs) :
    lastWith k rs' = lastWith k rs := by
  have hd' : DistinctIds rs' := by
    unfold DistinctIds at *
    exact (List.Perm.nodup_iff (hp.map _)).1 hd
  cases h : lastWith k rs with
  | none =>
    apply (lastWith_none_iff k rs').2
    intro r hr
    exact (lastWith_none_iff k rs).1 h r (hp.mem_iff.2 hr)
  | some r =>
    obtain ⟨h1, h2⟩ := lastWith_some_mem k rs r h
    exact lastWith_eq_of_distinct k rs' hd' r (hp.mem_iff.1 h1) h2

theorem allInRange_perm {start n : Nat} {rs rs' : List Response} (hp : rs.Perm rs') (h : AllInRange start n rs) :
    AllInRange start n rs' := fun r hr => h r (hp.mem_iff.2 hr)

theorem hasId_perm {k : Nat} {rs rs' : List Response} (hp : rs.Perm rs') (h : HasId k rs) : HasId k rs' := by
  obtain ⟨r, hr, hk⟩ := h
  exact ⟨r, hp.mem_iff.1 hr, hk⟩

theorem list_ext_get {α} (a b : List α) (n : Nat) (ha : a.length = n) (hb : b.length = n)
    (h : ∀ i, i < n → a[i]? = b[i]?) : a = b := by
  apply List.ext_getElem?
  intro i
  by_cases hi : i < n
  · exact h i hi
  · rw [List.getElem?_eq_none (by omega), List.getElem?_eq_none (by omega)]

/-- WS client: any rearrangement of a reply without repeated ids yields the same result list -/
theorem c12_ws_permutation_invariant (start n : Nat) (rs rs' : List Response) (b : BatchResult)
    (hp : rs.Perm rs') (hd : DistinctIds rs) (h : wsBatch start n rs = .ok b) : wsBatch start n rs' = .ok b := by
  have hraw : ∃ out, wsBatchRaw start n rs = .ok out := by
    rcases bres_cases (wsBatchRaw start n rs) with ⟨out, ho⟩ | ⟨e, he⟩
    · exact ⟨out, ho⟩
    · unfold wsBatch at h; simp [he] at h
  obtain ⟨c1, c2, c3, c4, c5⟩ := (c12_ws_ok_iff start n rs).1 hraw
  obtain ⟨out', ho'⟩ := (c12_ws_ok_iff start n rs').2 ⟨allInRange_perm hp c1, hasId_perm hp c2, hasId_perm hp c3, c4, c5⟩
  obtain ⟨out, ho⟩ := hraw
  obtain ⟨l1, g1⟩ := c12_ws_positional_raw start n rs out ho
  obtain ⟨l2, g2⟩ := c12_ws_positional_raw start n rs' out' ho'
  have : out' = out := by
    apply list_ext_get out' out n l2 l1
    intro i hi
    rw [g1 i hi, g2 i hi]
    unfold respFor
    rw [lastWith_perm (start + i) rs rs' hp hd]
  unfold wsBatch at h ⊢
  simp only [ho] at h
  simp only [ho', this]
  exact h

/-- HTTP client: likewise -/
theorem c12_http_permutation_invariant (start n : Nat) (rs rs' : List Response) (b : BatchResult)
    (hp : rs.Perm rs') (hd : DistinctIds rs) (h : httpBatch start n rs = .ok b) : httpBatch start n rs' = .ok b := by
  obtain ⟨b', hb'⟩ := (c12_http_ok_iff start n rs').2 (allInRange_perm hp ((c12_http_ok_iff start n rs).1 ⟨b, h⟩))
  obtain ⟨l1, g1, _, s1⟩ := c12_http_positional start n rs b h
  obtain ⟨l2, g2, _, s2⟩ := c12_http_positional start n rs' b' hb'
  have he : b'.entries = b.entries := by
    apply list_ext_get _ _ n l2 l1
    intro i hi
    rw [g1 i hi, g2 i hi]
    unfold entryFor
    rw [lastWith_perm (start + i) rs rs' hp hd]
  have hs : b'.successes = b.successes := by rw [s1, s2, he]
  have hf : b'.failures = b.failures := by
    unfold httpBatch at h hb'
    cases hf1 : httpFill start (List.replicate n (Payload.error placeholderErr)) rs with
    | err e => simp [hf1] at h
    | ok s1' =>
      cases hf2 : httpFill start (List.replicate n (Payload.error placeholderErr)) rs' with
      | err e => simp [hf2] at hb'
      | ok s2' =>
        simp only [hf1, BRes.ok.injEq] at h
        simp only [hf2, BRes.ok.injEq] at hb'
        subst h hb'
        simp only at he
        simp [he]
  rw [hb']
  cases b; cases b'
  simp_all

/-- the complete, correct reply in any order gives the n answers in request order -/
theorem c12_complete_reply_any_order (start n : Nat) (rs : List Response)
    (hall : AllInRange start n rs) (hevery : ∀ i, i < n → HasId (start + i) rs) (hn : 0 < n)
    (hmax : start + n - 1 ≠ u64Max) :
    (∃ b, wsBatch start n rs = .ok b ∧ ∀ i, i < n → ∃ r ∈ rs, idNum r.id = some (start + i) ∧ b.entries[i]? = some r.payload) ∧
    (∃ b, httpBatch start n rs = .ok b ∧ ∀ i, i < n → ∃ r ∈ rs, idNum r.id = some (start + i) ∧ b.entries[i]? = some r.payload) := by
  have own : ∀ i, i < n → ∃ r ∈ rs, idNum r.id = some (start + i) ∧ entryFor (start + i) rs = r.payload := by
    intro i hi
    rcases c12_entry_is_own (start + i) rs with h | ⟨h, _⟩
    · exact h
    · obtain ⟨r, hr, hk⟩ := hevery i hi
      exact absurd hk (h r hr)
  constructor
  · have h0 : HasId start rs := by simpa using hevery 0 hn
    have h1 : HasId (start + n - 1) rs := by
      have := hevery (n - 1) (by omega)
      have e : start + (n - 1) = start + n - 1 := by omega
      rwa [e] at this
    obtain ⟨out, ho⟩ := (c12_ws_ok_iff start n rs).2 ⟨hall, h0, h1, hn, hmax⟩
    refine ⟨wsEntries out, by unfold wsBatch; simp [ho], ?_⟩
    have hb : wsBatch start n rs = .ok (wsEntries out) := by unfold wsBatch; simp [ho]
    obtain ⟨_, g, _⟩ := c12_ws_positional start n rs _ hb
    intro i hi
    obtain ⟨r, hr, hk, he⟩ := own i hi
    exact ⟨r, hr, hk, by rw [g i hi, he]⟩
  · obtain ⟨b, hb⟩ := (c12_http_ok_iff start n rs).2 hall
    refine ⟨b, hb, ?_⟩
    obtain ⟨_, g, _⟩ := c12_http_positional start n rs b hb
    intro i hi
    obtain ⟨r, hr, hk, he⟩ := own i hi
    exact ⟨r, hr, hk, by rw [g i hi, he]⟩

/-! ### the WS path inside the client: which pending batch receives which list -/

theorem completeIfAlive_completions (st : Core) (t : Ticket) (o : Outcome) :
    completions (st.completeIfAlive t o) = if st.alive t then [(t, o)] else [] := by
  unfold Core.completeIfAlive
  split <;> simp [completions]

/-- Safety: whenever an incoming array completes a batch future with a list `out`, that future
belongs to the pending batch whose id range is **exactly** the reply's id range `[lo, hi)`, and
`out` is `wsBatchRaw lo (hi-lo)` of the array's response entries — hence positional (C12.1).
Notifications mixed into the array are irrelevant. -/
theorem c12_ws_delivery (st : Core) (es : List Text) (t : Ticket) (out : List Response)
    (h : Effect.complete t (.batch out) ∈ (handleArray st es).effs) :
    ∃ lo hi, alookup (lo, hi) st.mgr.batches = some t ∧ lo < hi ∧
      wsBatchRaw lo (hi - lo) (responsesOf es) = .ok out ∧ (handleArray st es).fatal = none := by
  rw [mem_completions] at h
  unfold handleArray at h ⊢
  cases hl : arrayLoop { st := st } es with
  | mk acc f =>
    cases f with
    | some f =>
      simp only [hl] at h
      rw [completions_dropQueued, arrayLoop_completions es _ _ _ hl] at h
      simp [completions] at h
    | none =>
      simp only [hl] at h ⊢
      obtain ⟨h1, h2, h3, h4, h5⟩ := arrayLoop_spec es _ _ hl
      simp only [List.nil_append] at h1
      simp only [completions] at h5
      unfold arrayFinish at h ⊢
      cases hr : acc.range with
      | none =>
        simp only [hr] at h
        split at h
        · simp [h5] at h
        · simp [completions_dropQueued, h5] at h
      | some p =>
        obtain ⟨lo, hi⟩ := p
        simp only [hr] at h ⊢
        cases he : rangeEnd hi with
        | err e => simp [he, completions_dropQueued, h5] at h
        | ok hi1 =>
          simp only [he] at h ⊢
          have hhi1 : hi ≠ u64Max ∧ hi1 = hi + 1 := by
            unfold rangeEnd at he
            by_cases c : hi = u64Max <;> simp [c] at he
            exact ⟨c, he.symm⟩
          unfold processBatchResponse at h ⊢
          cases hb : acc.st.mgr.completePendingBatch (lo, hi1) with
          | none => simp [hb, completions_dropQueued, h5] at h
          | some mt =>
            obtain ⟨m', t'⟩ := mt
            simp only [hb] at h ⊢
            cases hf : fillSlots lo (List.replicate (hi1 - lo) placeholder) acc.batch with
            | err e => simp [hf, completions_dropQueued, h5] at h
            | ok slots =>
              simp only [hf] at h ⊢
              rw [completions_append, h5, completeIfAlive_completions] at h
              split at h
              · simp at h
                obtain ⟨e1, e2⟩ := h
                subst e1 e2
                rw [hr] at h2
                have hlohi : lo ≤ hi := by
                  rcases replyRange_none _ _ h2 with ⟨_, h0⟩ | ⟨lo', hi', e, b1, b2, _⟩
                  · simp at h0
                  · simp at e
                    obtain ⟨r, hr1, hr2⟩ := b2
                    obtain ⟨k, hk, a, b⟩ := b1 r hr1
                    rw [hr2] at hk; simp at hk; omega
                refine ⟨lo, hi1, ?_, by omega, ?_, by first | rfl | trivial⟩
                · unfold Mgr.completePendingBatch at hb
                  rw [h3] at hb
                  cases ha : alookup (lo, hi1) st.mgr.batches with
                  | none => simp [ha] at hb
                  | some tt => simp [ha] at hb; rw [hb.2]
                · unfold wsBatchRaw
                  simp only [h2, he]
                  have : True ∧ hi1 = lo + (hi1 - lo) := ⟨trivial, by omega⟩
                  rw [if_pos this, ← h1]; exact hf
              · simp at h

/-- Progress side (non-vacuity of the above): a reply accepted by `wsBatchRaw` for a pending,
still-awaited batch completes exactly that batch with exactly that list -/
theorem c12_ws_delivery_complete (st : Core) (es : List Text) (t : Ticket) (start n : Nat) (out : List Response)
    (hg : ∀ e ∈ es, classifyIncoming e ≠ .garbage)
    (hb : alookup (start, start + n) st.mgr.batches = some t) (ha : st.alive t = true)
    (ho : wsBatchRaw start n (responsesOf es) = .ok out) :
    Effect.complete t (.batch out) ∈ (handleArray st es).effs ∧ (handleArray st es).fatal = none := by
  obtain ⟨c1, c2, c3, c4, c5⟩ := (c12_ws_ok_iff start n (responsesOf es)).1 ⟨out, ho⟩
  have hp : ∀ r ∈ responsesOf es, ∃ k, idNum r.id = some k := fun r hr => by
    obtain ⟨k, hk, _⟩ := c1 r hr; exact ⟨k, hk⟩
  obtain ⟨acc, hl⟩ := arrayLoop_ok es hg hp { st := st }
  obtain ⟨h1, h2, h3, h4, h5⟩ := arrayLoop_spec es _ _ hl
  simp only [List.nil_append] at h1
  unfold wsBatchRaw at ho
  simp only at h2
  rw [h2] at ho
  cases hr : acc.range with
  | none => simp [hr] at ho
  | some p =>
    obtain ⟨lo, hi⟩ := p
    simp only [hr] at ho
    cases he : rangeEnd hi with
    | err e => simp [he] at ho
    | ok hi1 =>
      simp only [he] at ho
      by_cases hc : lo = start ∧ hi1 = start + n
      · simp only [hc, and_self, if_true] at ho
        obtain ⟨hc1, hc2⟩ := hc
        subst hc1 hc2
        have hn : lo + n - lo = n := by omega
        rw [hn] at ho
        rw [mem_completions]
        unfold handleArray
        simp only [hl]
        unfold arrayFinish
        simp only [hr, he]
        unfold processBatchResponse Mgr.completePendingBatch
        rw [h3, hb]
        simp only [hn, h1, ho]
        refine ⟨?_, by first | rfl | trivial⟩
        rw [completions_append, completeIfAlive_completions]
        have : acc.st.alive t = true := by
          unfold Core.alive at ha ⊢; rw [h4]; exact ha
        simp [this]
      · simp [hc] at ho

/-! ### C12.4 — typed results (`R` decoded per entry by `δ`) -/

section typed
variable {ρ : Type}

theorem decodeEntries_spec (δ : Text → Option ρ) : ∀ (ps : List Payload) (es : List (TEntry ρ)),
    decodeEntries δ ps = some es →
    es.length = ps.length ∧ ∀ (i : Nat) (p : Payload), ps[i]? = some p → ∃ e, decodePayload δ p = some e ∧ es[i]? = some e := by
  intro ps
  induction ps with
  | nil => intro es h; simp [decodeEntries] at h; subst h; simp
  | cons p r ih =>
    intro es h
    simp only [decodeEntries] at h
    cases hp : decodePayload δ p with
    | none => simp [hp] at h
    | some e =>
      simp only [hp] at h
      cases hr : decodeEntries δ r with
      | none => simp [hr] at h
      | some es' =>
        simp only [hr, Option.some.injEq] at h
        subst h
        obtain ⟨h1, h2⟩ := ih es' hr
        refine ⟨by simp [h1], ?_⟩
        intro i q hq
        cases i with
        | zero => simp at hq; subst hq; exact ⟨e, hp, by simp⟩
        | succ j =>
          simp at hq
          obtain ⟨e', he1, he2⟩ := h2 j q hq
          exact ⟨e', he1, by simpa using he2⟩

theorem decodeEntries_none (δ : Text → Option ρ) : ∀ (ps : List Payload),
    decodeEntries δ ps = none → ∃ p ∈ ps, decodePayload δ p = none := by
  intro ps
  induction ps with
  | nil => intro h; simp [decodeEntries] at h
  | cons p r ih =>
    intro h
    simp only [decodeEntries] at h
    cases hp : decodePayload δ p with
    | none => exact ⟨p, by simp, hp⟩
    | some e =>
      simp only [hp] at h
      cases hr : decodeEntries δ r with
      | none =>
        obtain ⟨q, hq, hd⟩ := ih hr
        exact ⟨q, by simp [hq], hd⟩
      | some es' => simp [hr] at h

theorem decodeEntries_some_of_all (δ : Text → Option ρ) : ∀ (ps : List Payload),
    (∀ p ∈ ps, decodePayload δ p ≠ none) → ∃ es, decodeEntries δ ps = some es := by
  intro ps hall
  cases h : decodeEntries δ ps with
  | some es => exact ⟨es, rfl⟩
  | none =>
    obtain ⟨p, hp, hd⟩ := decodeEntries_none δ ps h
    exact absurd hd (hall p hp)

theorem countOk_le (l : List (TEntry ρ)) : countOk l ≤ l.length := by
  induction l with
  | nil => simp [countOk]
  | cons p r ih => simp only [countOk, List.length_cons]; split <;> omega

theorem respFor_payload (k : Nat) (rs : List Response) : (respFor k rs).payload = entryFor k rs := by
  unfold respFor entryFor
  cases lastWith k rs <;> simp [placeholder]

/-- **WS client, typed.**  If `batch_request::<R>` returns `Ok`, it has exactly one entry per
request entry, the i-th being the decoded answer bearing id `start+i` (or the placeholder error when
there is none), never a shorter list, never another entry's answer; the counters fit the entries. -/
theorem c12_ws_typed_positional (δ : Text → Option ρ) (start n : Nat) (rs : List Response) (b : TBatchResult ρ)
    (h : wsBatchT δ start n rs = .ok b) :
    b.entries.length = n ∧
    (∀ i, i < n → ∃ e, decodePayload δ (entryFor (start + i) rs) = some e ∧ b.entries[i]? = some e) ∧
    b.successes + b.failures = n ∧ b.successes = countOk b.entries := by
  unfold wsBatchT at h
  cases hr : wsBatchRaw start n rs with
  | err e => simp [hr] at h
  | ok out =>
    simp only [hr] at h
    obtain ⟨h1, h2⟩ := c12_ws_positional_raw start n rs out hr
    unfold wsTyped at h
    cases hd : decodeEntries δ (out.map (·.payload)) with
    | none => simp [hd] at h
    | some es =>
      simp only [hd, TRes.ok.injEq] at h
      subst h
      obtain ⟨d1, d2⟩ := decodeEntries_spec δ _ es hd
      have hl : es.length = n := by rw [d1]; simp [h1]
      refine ⟨hl, ?_, ?_, rfl⟩
      · intro i hi
        have hp : (out.map (·.payload))[i]? = some (entryFor (start + i) rs) := by
          simp only [List.getElem?_map, h2 i hi, Option.map_some, respFor_payload]
        exact d2 i _ hp
      · have := countOk_le es
        show countOk es + (es.length - countOk es) = n
        omega

/-- all or nothing (WS): the typed call fails with `ParseError` exactly when the raw reply is
accepted but the answer of some entry cannot be decoded — there is no third outcome in which that
entry is skipped -/
theorem c12_ws_typed_parse_iff (δ : Text → Option ρ) (start n : Nat) (rs : List Response) :
    wsBatchT δ start n rs = .parse ↔
    (∃ out, wsBatchRaw start n rs = .ok out) ∧ ∃ i, i < n ∧ decodePayload δ (entryFor (start + i) rs) = none := by
  unfold wsBatchT
  cases hr : wsBatchRaw start n rs with
  | err e => simp
  | ok out =>
    obtain ⟨h1, h2⟩ := c12_ws_positional_raw start n rs out hr
    simp only
    unfold wsTyped
    constructor
    · intro h
      cases hd : decodeEntries δ (out.map (·.payload)) with
      | some es => simp [hd] at h
      | none =>
        obtain ⟨p, hp, hn⟩ := decodeEntries_none δ _ hd
        obtain ⟨i, hi, hg⟩ := List.getElem_of_mem hp
        have hi' : i < n := by simpa [h1] using hi
        refine ⟨⟨out, rfl⟩, i, hi', ?_⟩
        have hp2 : (out.map (·.payload))[i]? = some (entryFor (start + i) rs) := by
          simp only [List.getElem?_map, h2 i hi', Option.map_some, respFor_payload]
        have hp3 : (out.map (·.payload))[i]? = some p := by
          rw [List.getElem?_eq_getElem hi, hg]
        rw [hp3] at hp2
        simp at hp2
        rw [← hp2]; exact hn
    · intro ⟨_, i, hi, hn⟩
      cases hd : decodeEntries δ (out.map (·.payload)) with
      | none => rfl
      | some es =>
        obtain ⟨_, d2⟩ := decodeEntries_spec δ _ es hd
        have hp : (out.map (·.payload))[i]? = some (entryFor (start + i) rs) := by
          simp only [List.getElem?_map, h2 i hi, Option.map_some, respFor_payload]
        obtain ⟨e, he, _⟩ := d2 i _ hp
        rw [hn] at he; simp at he

theorem setAt_decode (δ : Text → Option ρ) (p : Payload) (e : TEntry ρ) (hp : decodePayload δ p = some e) :
    ∀ (ps : List Payload) (ts ts' : List (TEntry ρ)) (i : Nat), decodeEntries δ ps = some ts → setAt ts i e = some ts' →
    ∃ ps', setAt ps i p = some ps' ∧ decodeEntries δ ps' = some ts' := by
  intro ps
  induction ps with
  | nil =>
    intro ts ts' i hd hs
    simp [decodeEntries] at hd; subst hd
    simp [setAt] at hs
  | cons q r ih =>
    intro ts ts' i hd hs
    simp only [decodeEntries] at hd
    cases hq : decodePayload δ q with
    | none => simp [hq] at hd
    | some eq =>
      simp only [hq] at hd
      cases hr : decodeEntries δ r with
      | none => simp [hr] at hd
      | some es =>
        simp only [hr, Option.some.injEq] at hd
        subst hd
        cases i with
        | zero =>
          simp only [setAt, Option.some.injEq] at hs
          subst hs
          exact ⟨p :: r, rfl, by simp [decodeEntries, hp, hr]⟩
        | succ j =>
          simp only [setAt] at hs
          cases hj : setAt es j e with
          | none => simp [hj] at hs
          | some es' =>
            simp only [hj, Option.some.injEq] at hs
            subst hs
            obtain ⟨r', hr1, hr2⟩ := ih es es' j hr hj
            exact ⟨q :: r', by simp [setAt, hr1], by simp [decodeEntries, hq, hr2]⟩

/-- the typed HTTP fill loop is the raw one followed by decoding, whenever it succeeds -/
theorem httpFillT_sim (δ : Text → Option ρ) (start : Nat) : ∀ (rs : List Response) (ps : List Payload) (ts out : List (TEntry ρ)),
    decodeEntries δ ps = some ts → httpFillT δ start ts rs = .ok out →
    ∃ pout, httpFill start ps rs = .ok pout ∧ decodeEntries δ pout = some out := by
  intro rs
  induction rs with
  | nil =>
    intro ps ts out hd h
    simp only [httpFillT, TRes.ok.injEq] at h
    subst h
    exact ⟨ps, rfl, hd⟩
  | cons rp rest ih =>
    intro ps ts out hd h
    simp only [httpFillT] at h
    cases hid : idNum rp.id with
    | none => simp [hid] at h
    | some id =>
      simp only [hid] at h
      cases hp : decodePayload δ rp.payload with
      | none => simp [hp] at h
      | some e =>
        simp only [hp] at h
        by_cases hlt : id < start
        · simp [hlt] at h
        · simp only [hlt, if_false] at h
          cases hs : setAt ts (id - start) e with
          | none => simp [hs] at h
          | some ts' =>
            simp only [hs] at h
            obtain ⟨ps', hs1, hs2⟩ := setAt_decode δ rp.payload e hp ps ts ts' (id - start) hd hs
            obtain ⟨pout, h1, h2⟩ := ih ps' ts' out hs2 h
            refine ⟨pout, ?_, h2⟩
            simp only [httpFill, hid, hlt, if_false, hs1]
            exact h1

theorem decodeEntries_placeholders (δ : Text → Option ρ) (n : Nat) :
    decodeEntries δ (List.replicate n (Payload.error placeholderErr)) = some (List.replicate n (TEntry.err placeholderErr)) := by
  induction n with
  | zero => rfl
  | succ k ih => simp [List.replicate_succ, decodeEntries, decodePayload, ih]

/-- **HTTP client, typed**: the same statement -/
theorem c12_http_typed_positional (δ : Text → Option ρ) (start n : Nat) (rs : List Response) (b : TBatchResult ρ)
    (h : httpBatchT δ start n rs = .ok b) :
    b.entries.length = n ∧
    (∀ i, i < n → ∃ e, decodePayload δ (entryFor (start + i) rs) = some e ∧ b.entries[i]? = some e) ∧
    b.successes + b.failures = n ∧ b.successes = countOk b.entries := by
  unfold httpBatchT at h
  cases hf : httpFillT δ start (List.replicate n (TEntry.err placeholderErr)) rs with
  | err e => simp [hf] at h
  | parse => simp [hf] at h
  | ok slots =>
    simp only [hf, TRes.ok.injEq] at h
    subst h
    obtain ⟨pout, h1, h2⟩ := httpFillT_sim δ start rs _ _ slots (decodeEntries_placeholders δ n) hf
    have hb : httpBatch start n rs = .ok { entries := pout, successes := countResults pout, failures := pout.length - countResults pout } := by
      unfold httpBatch; rw [h1]
    obtain ⟨p1, p2, _⟩ := c12_http_positional start n rs _ hb
    obtain ⟨d1, d2⟩ := decodeEntries_spec δ pout slots h2
    have hl : slots.length = n := by rw [d1]; exact p1
    refine ⟨hl, fun i hi => d2 i _ (p2 i hi), ?_, rfl⟩
    have := countOk_le slots
    show countOk slots + (slots.length - countOk slots) = n
    omega

/-- an HTTP `ParseError` of the typed call needs an undecodable answer in the reply -/
theorem c12_http_typed_parse_only_if (δ : Text → Option ρ) (start n : Nat) (rs : List Response)
    (h : httpBatchT δ start n rs = .parse) : ∃ r ∈ rs, decodePayload δ r.payload = none := by
  unfold httpBatchT at h
  have key : ∀ (rs : List Response) (ts : List (TEntry ρ)), httpFillT δ start ts rs = .parse →
      ∃ r ∈ rs, decodePayload δ r.payload = none := by
    intro rs
    induction rs with
    | nil => intro ts h; simp [httpFillT] at h
    | cons rp rest ih =>
      intro ts h
      simp only [httpFillT] at h
      cases hid : idNum rp.id with
      | none => simp [hid] at h
      | some id =>
        simp only [hid] at h
        cases hp : decodePayload δ rp.payload with
        | none => exact ⟨rp, by simp, hp⟩
        | some e =>
          simp only [hp] at h
          by_cases hlt : id < start
          · simp [hlt] at h
          · simp only [hlt, if_false] at h
            cases hs : setAt ts (id - start) e with
            | none => simp [hs] at h
            | some ts' =>
              simp only [hs] at h
              obtain ⟨r, hr, hd⟩ := ih ts' h
              exact ⟨r, by simp [hr], hd⟩
  cases hf : httpFillT δ start (List.replicate n (TEntry.err placeholderErr)) rs with
  | err e => simp [hf] at h
  | ok slots => simp [hf] at h
  | parse => exact key rs _ hf

/-- with a decoder that never fails (`R = Box<RawValue>`) the typed call is the raw one -/
theorem c12_typed_raw_agree (start n : Nat) (rs : List Response) (b : TBatchResult Text)
    (h : wsBatchT (fun t => some t) start n rs = .ok b) :
    ∃ b0, wsBatch start n rs = .ok b0 ∧ b0.entries.length = b.entries.length ∧ b0.successes = b.successes := by
  unfold wsBatchT at h
  cases hr : wsBatchRaw start n rs with
  | err e => simp [hr] at h
  | ok out =>
    simp only [hr] at h
    unfold wsTyped at h
    cases hd : decodeEntries (fun t => some t) (out.map (·.payload)) with
    | none => simp [hd] at h
    | some es =>
      simp only [hd, TRes.ok.injEq] at h
      subst h
      refine ⟨wsEntries out, by unfold wsBatch; rw [hr], ?_, ?_⟩
      · simp [wsEntries, (decodeEntries_spec _ _ es hd).1]
      · have key : ∀ (ps : List Payload) (ts : List (TEntry Text)), decodeEntries (fun t => some t) ps = some ts →
            countResults ps = countOk ts := by
          intro ps
          induction ps with
          | nil => intro ts h; simp [decodeEntries] at h; subst h; rfl
          | cons p r ih =>
            intro ts h
            simp only [decodeEntries] at h
            cases p with
            | result v =>
              simp only [decodePayload, Option.map_some] at h
              cases hr2 : decodeEntries (fun t => some t) r with
              | none => simp [hr2] at h
              | some es2 =>
                simp only [hr2, Option.some.injEq] at h
                subst h
                simp [countResults, countOk, isResult, TEntry.isOk, ih es2 hr2]
            | error e =>
              simp only [decodePayload] at h
              cases hr2 : decodeEntries (fun t => some t) r with
              | none => simp [hr2] at h
              | some es2 =>
                simp only [hr2, Option.some.injEq] at h
                subst h
                simp [countResults, countOk, isResult, TEntry.isOk, ih es2 hr2]
        exact key _ es hd

end typed

/-! ### non-vacuity and regression witnesses -/

def rOk (id : Id) (v : String) : Response := { jsonrpc := true, id := id, payload := .result (lit v) }

-- a reply in reverse order, one id given as a string: accepted, positional
example : wsBatch 4 3 [rOk (.num 6) "6", rOk (.str (lit "5")) "5", rOk (.num 4) "4"] =
    .ok { entries := [.result (lit "4"), .result (lit "5"), .result (lit "6")], successes := 3, failures := 0 } := by decide
example : httpBatch 4 3 [rOk (.num 6) "6", rOk (.str (lit "5")) "5", rOk (.num 4) "4"] =
    .ok { entries := [.result (lit "4"), .result (lit "5"), .result (lit "6")], successes := 3, failures := 0 } := by decide
-- hypotheses of the permutation theorem are satisfiable
example : DistinctIds [rOk (.num 6) "6", rOk (.num 5) "5", rOk (.num 4) "4"] := by decide
example : AllInRange 4 3 [rOk (.num 6) "6", rOk (.num 4) "4"] := by
  intro r hr; simp at hr; rcases hr with rfl | rfl <;> simp [rOk, idNum]
-- interior entry missing: placeholder in that slot, counters per entry
example : wsBatch 4 3 [rOk (.num 6) "6", rOk (.num 4) "4"] =
    .ok { entries := [.result (lit "4"), .error placeholderErr, .result (lit "6")], successes := 2, failures := 1 } := by decide
-- F-11 (fixed): HTTP batch of 3 answered with one entry keeps three slots (pre-fix: `Ok` of length 1)
example : httpBatch 0 3 [rOk (.num 0) "0"] =
    .ok { entries := [.result (lit "0"), .error placeholderErr, .error placeholderErr], successes := 1, failures := 2 } := by decide
-- the same reply on the WS client fails the call (last edge entry missing)
example : wsBatch 0 3 [rOk (.num 0) "0"] = .err (.notPendingRange 0 1) := by decide
-- F-9 (fixed): id 2^64-1 is rejected by the checked add instead of overflowing
example : wsBatch 0 1 [rOk (.num 18446744073709551615) "x"] = .err (.invalidNum 18446744073709551615) := by decide
-- duplicate id: the later answer bearing that id wins, nobody else's slot is touched
example : httpBatch 0 2 [rOk (.num 0) "a", rOk (.num 1) "b", rOk (.num 0) "c"] =
    .ok { entries := [.result (lit "c"), .result (lit "b")], successes := 2, failures := 0 } := by decide

-- typed (R = u64 via `decodeU64`): a complete reply in reverse order, all results numbers
example : wsBatchT decodeU64 4 3 [rOk (.num 6) "6", rOk (.num 5) "5", rOk (.num 4) "4"] =
    .ok { entries := [.ok 4, .ok 5, .ok 6], successes := 3, failures := 0 } := by decide
-- the seeded bug C12-R3: entry 1 is a string where a number is expected — the whole call fails; it
-- is never `Ok [4, 6]` (one entry short, entry 1 holding entry 2's answer)
example : wsBatchT decodeU64 4 3 [rOk (.num 4) "4", rOk (.num 5) "\"x\"", rOk (.num 6) "6"] = .parse := by decide
example : httpBatchT decodeU64 4 3 [rOk (.num 4) "4", rOk (.num 5) "\"x\"", rOk (.num 6) "6"] = .parse := by decide
-- an error entry is an entry, not a decode failure
example : httpBatchT decodeU64 0 2 [{ jsonrpc := true, id := .num 1, payload := .error placeholderErr }, rOk (.num 0) "9"] =
    .ok { entries := [.ok 9, .err placeholderErr], successes := 1, failures := 1 } := by decide

end Jrpc.Client
