/-
  C12 — client: batch results are positional (WS client and HTTP client).

  `start` = first id of the batch, `n` = number of entries, `rs` = the decoded response entries of
  the server's reply array in arrival order.  Everything below is for all `start`, `n`, `rs`.
-/
import JrpcVerif.Proofs.ClientLemmas
namespace Jrpc.Client
open Jrpc

/-- every answer bears an id of the batch -/
def AllInRange (start n : Nat) (rs : List Response) : Prop :=
  ∀ r ∈ rs, ∃ k, idNum r.id = some k ∧ start ≤ k ∧ k < start + n

/-- some answer bears id `k` -/
def HasId (k : Nat) (rs : List Response) : Prop := ∃ r ∈ rs, idNum r.id = some k

/-- no id is answered twice -/
def DistinctIds (rs : List Response) : Prop := (rs.map (fun r => idNum r.id)).Nodup

instance (rs : List Response) : Decidable (DistinctIds rs) := by unfold DistinctIds; exact inferInstance

/-- what belongs in the slot of id `k`: the (last) answer bearing that id, else the placeholder -/
def respFor (k : Nat) (rs : List Response) : Response := (lastWith k rs).getD placeholder
def entryFor (k : Nat) (rs : List Response) : Payload :=
  match lastWith k rs with
  | some r => r.payload
  | none => .error placeholderErr

theorem replicate_get {α} (n : Nat) (a : α) (i : Nat) : (List.replicate n a)[i]? = if i < n then some a else none := by
  by_cases h : i < n <;> simp [h]

/-! ### C12.1 — positional -/

/-- WS client, raw responses handed to `batch_request` -/
theorem c12_ws_positional_raw (start n : Nat) (rs out : List Response) (h : wsBatchRaw start n rs = .ok out) :
    out.length = n ∧ ∀ i, i < n → out[i]? = some (respFor (start + i) rs) := by
  unfold wsBatchRaw at h
  cases hr : replyRange none rs with
  | err e => simp [hr] at h
  | ok res =>
    cases res with
    | none => simp [hr] at h
    | some p =>
      obtain ⟨lo, hi⟩ := p
      simp only [hr] at h
      cases he : rangeEnd hi with
      | err e => simp [he] at h
      | ok hi1 =>
        simp only [he] at h
        by_cases hc : lo = start ∧ hi1 = start + n
        · simp only [hc, and_self, if_true] at h
          obtain ⟨h1, h2, _⟩ := fillSlots_spec start rs _ out h
          have hn : start + n - start = n := by omega
          simp only [List.length_replicate, hn] at h1 h2
          refine ⟨h1, fun i hi => ?_⟩
          rw [h2 i, replicate_get]
          unfold respFor
          cases lastWith (start + i) rs <;> simp [hi]
        · simp [hc] at h

theorem countResults_le (l : List Payload) : countResults l ≤ l.length := by
  induction l with
  | nil => simp [countResults]
  | cons p r ih => simp only [countResults, List.length_cons]; split <;> omega

/-- WS client, what `batch_request` returns: exactly `n` entries, the i-th is the outcome of the
answer bearing id `start+i` (or the placeholder error when there is none — never another entry's
answer), and the two counters add up to `n` -/
theorem c12_ws_positional (start n : Nat) (rs : List Response) (b : BatchResult) (h : wsBatch start n rs = .ok b) :
    b.entries.length = n ∧ (∀ i, i < n → b.entries[i]? = some (entryFor (start + i) rs)) ∧
    b.successes + b.failures = n ∧ b.successes = countResults b.entries := by
  unfold wsBatch at h
  cases hr : wsBatchRaw start n rs with
  | err e => simp [hr] at h
  | ok out =>
    simp only [hr, BRes.ok.injEq] at h
    obtain ⟨h1, h2⟩ := c12_ws_positional_raw start n rs out hr
    subst h
    have hl : (out.map (·.payload)).length = n := by simp [h1]
    refine ⟨by simpa [wsEntries] using h1, ?_, ?_, rfl⟩
    · intro i hi
      simp only [wsEntries, List.getElem?_map, h2 i hi, Option.map_some]
      unfold respFor entryFor
      cases lastWith (start + i) rs <;> simp [placeholder]
    · have := countResults_le (out.map (·.payload))
      simp only [wsEntries]
      omega

/-- HTTP client -/
theorem c12_http_positional (start n : Nat) (rs : List Response) (b : BatchResult) (h : httpBatch start n rs = .ok b) :
    b.entries.length = n ∧ (∀ i, i < n → b.entries[i]? = some (entryFor (start + i) rs)) ∧
    b.successes + b.failures = n ∧ b.successes = countResults b.entries := by
  unfold httpBatch at h
  cases hf : httpFill start (List.replicate n (Payload.error placeholderErr)) rs with
  | err e => simp [hf] at h
  | ok slots =>
    simp only [hf, BRes.ok.injEq] at h
    obtain ⟨h1, h2, _⟩ := httpFill_spec start rs _ slots hf
    simp only [List.length_replicate] at h1 h2
    subst h
    refine ⟨h1, ?_, ?_, rfl⟩
    · intro i hi
      show slots[i]? = _
      rw [h2 i, replicate_get]
      unfold entryFor
      cases lastWith (start + i) rs <;> simp [hi]
    · have := countResults_le slots
      show countResults slots + (slots.length - countResults slots) = n
      omega

/-- never another entry's answer: a slot filled with a result holds the payload of an answer that
bears exactly that slot's id -/
theorem c12_entry_is_own (k : Nat) (rs : List Response) :
    (∃ r ∈ rs, idNum r.id = some k ∧ entryFor k rs = r.payload) ∨
    ((∀ r ∈ rs, idNum r.id ≠ some k) ∧ entryFor k rs = .error placeholderErr) := by
  unfold entryFor
  cases h : lastWith k rs with
  | some r =>
    left
    obtain ⟨h1, h2⟩ := lastWith_some_mem k rs r h
    exact ⟨r, h1, h2, rfl⟩
  | none =>
    right
    exact ⟨(lastWith_none_iff k rs).1 h, rfl⟩

/-! ### C12.3 — which replies are accepted at all -/

/-- WS client: the call succeeds exactly when every answer bears an id of the batch **and** both
edge entries are answered (the reply's id range must equal the pending range) -/
theorem c12_ws_ok_iff (start n : Nat) (rs : List Response) :
    (∃ out, wsBatchRaw start n rs = .ok out) ↔
      (AllInRange start n rs ∧ HasId start rs ∧ HasId (start + n - 1) rs ∧ 0 < n ∧ start + n - 1 ≠ u64Max) := by
  constructor
  · intro ⟨out, h⟩
    unfold wsBatchRaw at h
    cases hr : replyRange none rs with
    | err e => simp [hr] at h
    | ok res =>
      cases res with
      | none => simp [hr] at h
      | some p =>
        obtain ⟨lo, hi⟩ := p
        simp only [hr] at h
        cases he : rangeEnd hi with
        | err e => simp [he] at h
        | ok hi1 =>
          simp only [he] at h
          have hne : hi ≠ u64Max ∧ hi1 = hi + 1 := by
            unfold rangeEnd at he
            by_cases c : hi = u64Max <;> simp [c] at he
            exact ⟨c, he.symm⟩
          by_cases hc : lo = start ∧ hi1 = start + n
          · rcases replyRange_none rs _ hr with ⟨_, h0⟩ | ⟨lo', hi', e, b1, b2, b3⟩
            · simp at h0
            · simp at e
              obtain ⟨e1, e2⟩ := e
              subst e1 e2
              obtain ⟨c1, c2⟩ := hc
              obtain ⟨hne1, hne2⟩ := hne
              subst c1
              have hhi : hi = lo + n - 1 := by omega
              have hle : lo ≤ hi := by
                obtain ⟨r, hr1, hr2⟩ := b2
                obtain ⟨k, hk, a, b⟩ := b1 r hr1
                rw [hr2] at hk; simp at hk; omega
              refine ⟨?_, b2, by rw [← hhi]; exact b3, by omega, by rw [← hhi]; exact hne1⟩
              intro r hr1
              obtain ⟨k, hk, a, b⟩ := b1 r hr1
              exact ⟨k, hk, a, by omega⟩
          · simp [hc] at h
  · intro ⟨hall, hlo, hhi, hn, hmax⟩
    have hparse : ∀ r ∈ rs, ∃ k, idNum r.id = some k := fun r hr => by
      obtain ⟨k, hk, _⟩ := hall r hr; exact ⟨k, hk⟩
    obtain ⟨res, hres⟩ := replyRange_ok_of_parse rs hparse none
    rcases replyRange_none rs res hres with ⟨h0, _⟩ | ⟨lo', hi', e, b1, b2, b3⟩
    · obtain ⟨r, hr, _⟩ := hlo
      simp [h0] at hr
    · have hb : ∀ r ∈ rs, ∃ k, idNum r.id = some k ∧ start ≤ k ∧ k ≤ start + n - 1 := fun r hr => by
        obtain ⟨k, hk, a, b⟩ := hall r hr; exact ⟨k, hk, a, by omega⟩
      obtain ⟨e1, e2⟩ := range_unique rs lo' hi' start (start + n - 1) b1 b2 b3 hb hlo hhi
      subst e
      unfold wsBatchRaw
      simp only [hres]
      have he : rangeEnd hi' = .ok (hi' + 1) := by unfold rangeEnd; simp [e2, hmax]
      simp only [he]
      have hc : lo' = start ∧ hi' + 1 = start + n := ⟨e1, by omega⟩
      simp only [hc, and_self, if_true]
      apply fillSlots_ok_of_inRange
      simp only [List.length_replicate]
      intro r hr
      obtain ⟨k, hk, a, b⟩ := hall r hr
      exact ⟨k, hk, a, by omega⟩

/-- HTTP client: the call succeeds exactly when every answer bears an id of the batch -/
theorem c12_http_ok_iff (start n : Nat) (rs : List Response) :
    (∃ b, httpBatch start n rs = .ok b) ↔ AllInRange start n rs := by
  constructor
  · intro ⟨b, h⟩
    unfold httpBatch at h
    cases hf : httpFill start (List.replicate n (Payload.error placeholderErr)) rs with
    | err e => simp [hf] at h
    | ok slots =>
      obtain ⟨_, _, h3⟩ := httpFill_spec start rs _ slots hf
      simpa [AllInRange] using h3
  · intro hall
    obtain ⟨out, ho⟩ := httpFill_ok_of_inRange start rs (List.replicate n (Payload.error placeholderErr))
      (by simpa [AllInRange] using hall)
    exact ⟨{ entries := out, successes := countResults out, failures := out.length - countResults out },
      by unfold httpBatch; simp only [ho]⟩

theorem bres_cases {α} (x : BRes α) : (∃ a, x = .ok a) ∨ (∃ e, x = .err e) := by
  cases x with
  | ok a => exact Or.inl ⟨a, rfl⟩
  | err e => exact Or.inr ⟨e, rfl⟩

/-- an id outside the batch (foreign, or beyond either edge) fails the whole call — both clients -/
theorem c12_foreign_id_rejected (start n : Nat) (rs : List Response) (r : Response) (k : Nat)
    (hr : r ∈ rs) (hk : idNum r.id = some k) (hout : k < start ∨ start + n ≤ k) :
    (∃ e, wsBatch start n rs = .err e) ∧ (∃ e, httpBatch start n rs = .err e) := by
  constructor
  · rcases bres_cases (wsBatchRaw start n rs) with ⟨out, h⟩ | ⟨e, h⟩
    · obtain ⟨hall, _⟩ := (c12_ws_ok_iff start n rs).1 ⟨out, h⟩
      obtain ⟨k', hk', a, b⟩ := hall r hr
      rw [hk] at hk'; simp at hk'; omega
    · exact ⟨e, by unfold wsBatch; simp [h]⟩
  · rcases bres_cases (httpBatch start n rs) with ⟨b, h⟩ | ⟨e, h⟩
    · obtain hall := (c12_http_ok_iff start n rs).1 ⟨b, h⟩
      obtain ⟨k', hk', a, b⟩ := hall r hr
      rw [hk] at hk'; simp at hk'; omega
    · exact ⟨e, h⟩

/-- an id that is no number (null, non-numeric string) fails the whole call — both clients -/
theorem c12_unreadable_id_rejected (start n : Nat) (rs : List Response) (r : Response)
    (hr : r ∈ rs) (hk : idNum r.id = none) :
    (∃ e, wsBatch start n rs = .err e) ∧ (∃ e, httpBatch start n rs = .err e) := by
  constructor
  · rcases bres_cases (wsBatchRaw start n rs) with ⟨out, h⟩ | ⟨e, h⟩
    · obtain ⟨hall, _⟩ := (c12_ws_ok_iff start n rs).1 ⟨out, h⟩
      obtain ⟨k', hk', _⟩ := hall r hr
      rw [hk] at hk'; simp at hk'
    · exact ⟨e, by unfold wsBatch; simp [h]⟩
  · rcases bres_cases (httpBatch start n rs) with ⟨b, h⟩ | ⟨e, h⟩
    · obtain hall := (c12_http_ok_iff start n rs).1 ⟨b, h⟩
      obtain ⟨k', hk', _⟩ := hall r hr
      rw [hk] at hk'; simp at hk'
    · exact ⟨e, h⟩

/-- WS client: a reply lacking the first or the last entry of the batch fails the whole call -/
theorem c12_ws_missing_edge_rejected (start n : Nat) (rs : List Response)
    (h : ¬ HasId start rs ∨ ¬ HasId (start + n - 1) rs) : ∃ e, wsBatch start n rs = .err e := by
  rcases bres_cases (wsBatchRaw start n rs) with ⟨out, ho⟩ | ⟨e, he⟩
  · obtain ⟨_, h1, h2, _⟩ := (c12_ws_ok_iff start n rs).1 ⟨out, ho⟩
    rcases h with h | h <;> contradiction
  · exact ⟨e, by unfold wsBatch; simp [he]⟩

/-- a missing answer (WS: interior; HTTP: any) leaves the placeholder error in exactly that slot;
no shorter list is returned -/
theorem c12_missing_entry_is_error (start n i : Nat) (rs : List Response) (b : BatchResult)
    (h : wsBatch start n rs = .ok b ∨ httpBatch start n rs = .ok b) (hi : i < n)
    (hmiss : ¬ HasId (start + i) rs) :
    b.entries.length = n ∧ b.entries[i]? = some (.error placeholderErr) := by
  have hnone : lastWith (start + i) rs = none :=
    (lastWith_none_iff _ _).2 (fun r hr hk => hmiss ⟨r, hr, hk⟩)
  rcases h with h | h
  · obtain ⟨h1, h2, _⟩ := c12_ws_positional start n rs b h
    exact ⟨h1, by rw [h2 i hi]; simp [entryFor, hnone]⟩
  · obtain ⟨h1, h2, _⟩ := c12_http_positional start n rs b h
    exact ⟨h1, by rw [h2 i hi]; simp [entryFor, hnone]⟩

/-! ### C12.2 — the order of the server's array does not matter -/

theorem nodup_map_inj {α β} (f : α → β) (l : List α) (h : (l.map f).Nodup) (a b : α)
    (ha : a ∈ l) (hb : b ∈ l) (hab : f a = f b) : a = b := by
  induction l with
  | nil => simp at ha
  | cons x xs ih =>
    simp only [List.map_cons, List.nodup_cons, List.mem_map, not_exists, not_and] at h
    obtain ⟨h1, h2⟩ := h
    rcases List.mem_cons.1 ha with rfl | ha' <;> rcases List.mem_cons.1 hb with rfl | hb'
    · rfl
    · exact absurd hab.symm (h1 b hb')
    · exact absurd hab (h1 a ha')
    · exact ih h2 ha' hb'

theorem lastWith_eq_of_distinct (k : Nat) (rs : List Response) (hd : DistinctIds rs) (r : Response)
    (hr : r ∈ rs) (hk : idNum r.id = some k) : lastWith k rs = some r := by
  cases h : lastWith k rs with
  | none => exact absurd hk ((lastWith_none_iff k rs).1 h r hr)
  | some r' =>
    obtain ⟨h1, h2⟩ := lastWith_some_mem k rs r' h
    have := nodup_map_inj (fun r : Response => idNum r.id) rs hd r' r h1 hr (by simp [h2, hk])
    rw [this]

theorem lastWith_perm (k : Nat) (rs rs' : List Response) (hp : rs.Perm rs') (hd : DistinctIds rs) :
    lastWith k rs' = lastWith k rs := by
  have hd' : DistinctIds rs' := by
    unfold DistinctIds at *
    exact (List.Perm.nodup_iff (hp.map _)).1 hd
  cases h : lastWith k rs with
  | none =>
    apply (lastWith_none_iff k rs').2
    intro r hr
    exact (lastWith_none_iff k rs).1 h r (hp.mem_iff.2 hr)
  | some r =>
    obtain ⟨h1, h2⟩ := lastWith_some_mem k rs r h
    exact lastWith_eq_of_distinct k rs' hd' r (hp.mem_iff.1 h1) h2

theorem allInRange_perm {start n : Nat} {rs rs' : List Response} (hp : rs.Perm rs') (h : AllInRange start n rs) :
    AllInRange start n rs' := fun r hr => h r (hp.mem_iff.2 hr)

theorem hasId_perm {k : Nat} {rs rs' : List Response} (hp : rs.Perm rs') (h : HasId k rs) : HasId k rs' := by
  obtain ⟨r, hr, hk⟩ := h
  exact ⟨r, hp.mem_iff.1 hr, hk⟩

theorem list_ext_get {α} (a b : List α) (n : Nat) (ha : a.length = n) (hb : b.length = n)
    (h : ∀ i, i < n → a[i]? = b[i]?) : a = b := by
  apply List.ext_getElem?
  intro i
  by_cases hi : i < n
  · exact h i hi
  · rw [List.getElem?_eq_none (by omega), List.getElem?_eq_none (by omega)]

/-- WS client: any rearrangement of a reply without repeated ids yields the same result list -/
theorem c12_ws_permutation_invariant (start n : Nat) (rs rs' : List Response) (b : BatchResult)
    (hp : rs.Perm rs') (hd : DistinctIds rs) (h : wsBatch start n rs = .ok b) : wsBatch start n rs' = .ok b := by
  have hraw : ∃ out, wsBatchRaw start n rs = .ok out := by
    rcases bres_cases (wsBatchRaw start n rs) with ⟨out, ho⟩ | ⟨e, he⟩
    · exact ⟨out, ho⟩
    · unfold wsBatch at h; simp [he] at h
  obtain ⟨c1, c2, c3, c4, c5⟩ := (c12_ws_ok_iff start n rs).1 hraw
  obtain ⟨out', ho'⟩ := (c12_ws_ok_iff start n rs').2 ⟨allInRange_perm hp c1, hasId_perm hp c2, hasId_perm hp c3, c4, c5⟩
  obtain ⟨out, ho⟩ := hraw
  obtain ⟨l1, g1⟩ := c12_ws_positional_raw start n rs out ho
  obtain ⟨l2, g2⟩ := c12_ws_positional_raw start n rs' out' ho'
  have : out' = out := by
    apply list_ext_get out' out n l2 l1
    intro i hi
    rw [g1 i hi, g2 i hi]
    unfold respFor
    rw [lastWith_perm (start + i) rs rs' hp hd]
  unfold wsBatch at h ⊢
  simp only [ho] at h
  simp only [ho', this]
  exact h

/-- HTTP client: likewise -/
theorem c12_http_permutation_invariant (start n : Nat) (rs rs' : List Response) (b : BatchResult)
    (hp : rs.Perm rs') (hd : DistinctIds rs) (h : httpBatch start n rs = .ok b) : httpBatch start n rs' = .ok b := by
  obtain ⟨b', hb'⟩ := (c12_http_ok_iff start n rs').2 (allInRange_perm hp ((c12_http_ok_iff start n rs).1 ⟨b, h⟩))
  obtain ⟨l1, g1, _, s1⟩ := c12_http_positional start n rs b h
  obtain ⟨l2, g2, _, s2⟩ := c12_http_positional start n rs' b' hb'
  have he : b'.entries = b.entries := by
    apply list_ext_get _ _ n l2 l1
    intro i hi
    rw [g1 i hi, g2 i hi]
    unfold entryFor
    rw [lastWith_perm (start + i) rs rs' hp hd]
  have hs : b'.successes = b.successes := by rw [s1, s2, he]
  have hf : b'.failures = b.failures := by
    unfold httpBatch at h hb'
    cases hf1 : httpFill start (List.replicate n (Payload.error placeholderErr)) rs with
    | err e => simp [hf1] at h
    | ok s1' =>
      cases hf2 : httpFill start (List.replicate n (Payload.error placeholderErr)) rs' with
      | err e => simp [hf2] at hb'
      | ok s2' =>
        simp only [hf1, BRes.ok.injEq] at h
        simp only [hf2, BRes.ok.injEq] at hb'
        subst h hb'
        simp only at he
        simp [he]
  rw [hb']
  cases b; cases b'
  simp_all

/-- the complete, correct reply in any order gives the n answers in request order -/
theorem c12_complete_reply_any_order (start n : Nat) (rs : List Response)
    (hall : AllInRange start n rs) (hevery : ∀ i, i < n → HasId (start + i) rs) (hn : 0 < n)
    (hmax : start + n - 1 ≠ u64Max) :
    (∃ b, wsBatch start n rs = .ok b ∧ ∀ i, i < n → ∃ r ∈ rs, idNum r.id = some (start + i) ∧ b.entries[i]? = some r.payload) ∧
    (∃ b, httpBatch start n rs = .ok b ∧ ∀ i, i < n → ∃ r ∈ rs, idNum r.id = some (start + i) ∧ b.entries[i]? = some r.payload) := by
  have own : ∀ i, i < n → ∃ r ∈ rs, idNum r.id = some (start + i) ∧ entryFor (start + i) rs = r.payload := by
    intro i hi
    rcases c12_entry_is_own (start + i) rs with h | ⟨h, _⟩
    · exact h
    · obtain ⟨r, hr, hk⟩ := hevery i hi
      exact absurd hk (h r hr)
  constructor
  · have h0 : HasId start rs := by simpa using hevery 0 hn
    have h1 : HasId (start + n - 1) rs := by
      have := hevery (n - 1) (by omega)
      have e : start + (n - 1) = start + n - 1 := by omega
      rwa [e] at this
    obtain ⟨out, ho⟩ := (c12_ws_ok_iff start n rs).2 ⟨hall, h0, h1, hn, hmax⟩
    refine ⟨wsEntries out, by unfold wsBatch; simp [ho], ?_⟩
    have hb : wsBatch start n rs = .ok (wsEntries out) := by unfold wsBatch; simp [ho]
    obtain ⟨_, g, _⟩ := c12_ws_positional start n rs _ hb
    intro i hi
    obtain ⟨r, hr, hk, he⟩ := own i hi
    exact ⟨r, hr, hk, by rw [g i hi, he]⟩
  · obtain ⟨b, hb⟩ := (c12_http_ok_iff start n rs).2 hall
    refine ⟨b, hb, ?_⟩
    obtain ⟨_, g, _⟩ := c12_http_positional start n rs b hb
    intro i hi
    obtain ⟨r, hr, hk, he⟩ := own i hi
    exact ⟨r, hr, hk, by rw [g i hi, he]⟩

/-! ### the WS path inside the client: which pending batch receives which list -/

theorem completeIfAlive_completions (st : Core) (t : Ticket) (o : Outcome) :
    completions (st.completeIfAlive t o) = if st.alive t then [(t, o)] else [] := by
  unfold Core.completeIfAlive
  split <;> simp [completions]

/-- Safety: whenever an incoming array completes a batch future with a list `out`, that future
belongs to the pending batch whose id range is **exactly** the reply's id range `[lo, hi)`, and
`out` is `wsBatchRaw lo (hi-lo)` of the array's response entries — hence positional (C12.1).
Notifications mixed into the array are irrelevant. -/
theorem c12_ws_delivery (st : Core) (es : List Text) (t : Ticket) (out : List Response)
    (h : Effect.complete t (.batch out) ∈ (handleArray st es).effs) :
    ∃ lo hi, alookup (lo, hi) st.mgr.batches = some t ∧ lo < hi ∧
      wsBatchRaw lo (hi - lo) (responsesOf es) = .ok out ∧ (handleArray st es).fatal = none := by
  rw [mem_completions] at h
  unfold handleArray at h ⊢
  cases hl : arrayLoop { st := st } es with
  | mk acc f =>
    cases f with
    | some f =>
      simp only [hl] at h
      rw [completions_dropQueued, arrayLoop_completions es _ _ _ hl] at h
      simp [completions] at h
    | none =>
      simp only [hl] at h ⊢
      obtain ⟨h1, h2, h3, h4, h5⟩ := arrayLoop_spec es _ _ hl
      simp only [List.nil_append] at h1
      simp only [completions] at h5
      unfold arrayFinish at h ⊢
      cases hr : acc.range with
      | none =>
        simp only [hr] at h
        split at h
        · simp [h5] at h
        · simp [completions_dropQueued, h5] at h
      | some p =>
        obtain ⟨lo, hi⟩ := p
        simp only [hr] at h ⊢
        cases he : rangeEnd hi with
        | err e => simp [he, completions_dropQueued, h5] at h
        | ok hi1 =>
          simp only [he] at h ⊢
          have hhi1 : hi ≠ u64Max ∧ hi1 = hi + 1 := by
            unfold rangeEnd at he
            by_cases c : hi = u64Max <;> simp [c] at he
            exact ⟨c, he.symm⟩
          unfold processBatchResponse at h ⊢
          cases hb : acc.st.mgr.completePendingBatch (lo, hi1) with
          | none => simp [hb, completions_dropQueued, h5] at h
          | some mt =>
            obtain ⟨m', t'⟩ := mt
            simp only [hb] at h ⊢
            cases hf : fillSlots lo (List.replicate (hi1 - lo) placeholder) acc.batch with
            | err e => simp [hf, completions_dropQueued, h5] at h
            | ok slots =>
              simp only [hf] at h ⊢
              rw [completions_append, h5, completeIfAlive_completions] at h
              split at h
              · simp at h
                obtain ⟨e1, e2⟩ := h
                subst e1 e2
                rw [hr] at h2
                have hlohi : lo ≤ hi := by
                  rcases replyRange_none _ _ h2 with ⟨_, h0⟩ | ⟨lo', hi', e, b1, b2, _⟩
                  · simp at h0
                  · simp at e
                    obtain ⟨r, hr1, hr2⟩ := b2
                    obtain ⟨k, hk, a, b⟩ := b1 r hr1
                    rw [hr2] at hk; simp at hk; omega
                refine ⟨lo, hi1, ?_, by omega, ?_, by first | rfl | trivial⟩
                · unfold Mgr.completePendingBatch at hb
                  rw [h3] at hb
                  cases ha : alookup (lo, hi1) st.mgr.batches with
                  | none => simp [ha] at hb
                  | some tt => simp [ha] at hb; rw [hb.2]
                · unfold wsBatchRaw
                  simp only [h2, he]
                  have : True ∧ hi1 = lo + (hi1 - lo) := ⟨trivial, by omega⟩
                  rw [if_pos this, ← h1]; exact hf
              · simp at h

/-- Progress side (non-vacuity of the above): a reply accepted by `wsBatchRaw` for a pending,
still-awaited batch completes exactly that batch with exactly that list -/
theorem c12_ws_delivery_complete (st : Core) (es : List Text) (t : Ticket) (start n : Nat) (out : List Response)
    (hg : ∀ e ∈ es, classifyIncoming e ≠ .garbage)
    (hb : alookup (start, start + n) st.mgr.batches = some t) (ha : st.alive t = true)
    (ho : wsBatchRaw start n (responsesOf es) = .ok out) :
    Effect.complete t (.batch out) ∈ (handleArray st es).effs ∧ (handleArray st es).fatal = none := by
  obtain ⟨c1, c2, c3, c4, c5⟩ := (c12_ws_ok_iff start n (responsesOf es)).1 ⟨out, ho⟩
  have hp : ∀ r ∈ responsesOf es, ∃ k, idNum r.id = some k := fun r hr => by
    obtain ⟨k, hk, _⟩ := c1 r hr; exact ⟨k, hk⟩
  obtain ⟨acc, hl⟩ := arrayLoop_ok es hg hp { st := st }
  obtain ⟨h1, h2, h3, h4, h5⟩ := arrayLoop_spec es _ _ hl
  simp only [List.nil_append] at h1
  unfold wsBatchRaw at ho
  simp only at h2
  rw [h2] at ho
  cases hr : acc.range with
  | none => simp [hr] at ho
  | some p =>
    obtain ⟨lo, hi⟩ := p
    simp only [hr] at ho
    cases he : rangeEnd hi with
    | err e => simp [he] at ho
    | ok hi1 =>
      simp only [he] at ho
      by_cases hc : lo = start ∧ hi1 = start + n
      · simp only [hc, and_self, if_true] at ho
        obtain ⟨hc1, hc2⟩ := hc
        subst hc1 hc2
        have hn : lo + n - lo = n := by omega
        rw [hn] at ho
        rw [mem_completions]
        unfold handleArray
        simp only [hl]
        unfold arrayFinish
        simp only [hr, he]
        unfold processBatchResponse Mgr.completePendingBatch
        rw [h3, hb]
        simp only [hn, h1, ho]
        refine ⟨?_, by first | rfl | trivial⟩
        rw [completions_append, completeIfAlive_completions]
        have : acc.st.alive t = true := by
          unfold Core.alive at ha ⊢; rw [h4]; exact ha
        simp [this]
      · simp [hc] at ho

/-! ### non-vacuity and regression witnesses -/

def rOk (id : Id) (v : String) : Response := { jsonrpc := true, id := id, payload := .result (lit v) }

-- a reply in reverse order, one id given as a string: accepted, positional
example : wsBatch 4 3 [rOk (.num 6) "6", rOk (.str (lit "5")) "5", rOk (.num 4) "4"] =
    .ok { entries := [.result (lit "4"), .result (lit "5"), .result (lit "6")], successes := 3, failures := 0 } := by decide
example : httpBatch 4 3 [rOk (.num 6) "6", rOk (.str (lit "5")) "5", rOk (.num 4) "4"] =
    .ok { entries := [.result (lit "4"), .result (lit "5"), .result (lit "6")], successes := 3, failures := 0 } := by decide
-- hypotheses of the permutation theorem are satisfiable
example : DistinctIds [rOk (.num 6) "6", rOk (.num 5) "5", rOk (.num 4) "4"] := by decide
example : AllInRange 4 3 [rOk (.num 6) "6", rOk (.num 4) "4"] := by
  intro r hr; simp at hr; rcases hr with rfl | rfl <;> simp [rOk, idNum]
-- interior entry missing: placeholder in that slot, counters per entry
example : wsBatch 4 3 [rOk (.num 6) "6", rOk (.num 4) "4"] =
    .ok { entries := [.result (lit "4"), .error placeholderErr, .result (lit "6")], successes := 2, failures := 1 } := by decide
-- F-11 (fixed): HTTP batch of 3 answered with one entry keeps three slots (pre-fix: `Ok` of length 1)
example : httpBatch 0 3 [rOk (.num 0) "0"] =
    .ok { entries := [.result (lit "0"), .error placeholderErr, .error placeholderErr], successes := 1, failures := 2 } := by decide
-- the same reply on the WS client fails the call (last edge entry missing)
example : wsBatch 0 3 [rOk (.num 0) "0"] = .err (.notPendingRange 0 1) := by decide
-- F-9 (fixed): id 2^64-1 is rejected by the checked add instead of overflowing
example : wsBatch 0 1 [rOk (.num 18446744073709551615) "x"] = .err (.invalidNum 18446744073709551615) := by decide
-- duplicate id: the later answer bearing that id wins, nobody else's slot is touched
example : httpBatch 0 2 [rOk (.num 0) "a", rOk (.num 1) "b", rOk (.num 0) "c"] =
    .ok { entries := [.result (lit "c"), .result (lit "b")], successes := 2, failures := 0 } := by decide

end Jrpc.Client
