/-
  C12 — "the success/failure counts match the entries", for the accessors that derive their answer
  from the counters: `into_ok` / `ok` answer `Ok` with all `n` values exactly when every entry is a
  value, otherwise `Err` with exactly the failed entries' error objects (at least one); `is_empty`
  is `n = 0`.  Holds for every batch either client returns (raw and typed).
-/
import JrpcVerif.Theorems.C12
import JrpcVerif.Model.BatchAccessors
namespace Jrpc.Client
open Jrpc

theorem countResults_add_countErrors (es : List Payload) : countResults es + countErrors es = es.length := by
  induction es with
  | nil => rfl
  | cons p r ih => simp only [countResults, countErrors, List.length_cons]; split <;> omega

theorem countErrors_zero_iff (es : List Payload) : countErrors es = 0 ↔ ∀ p ∈ es, isResult p = true := by
  induction es with
  | nil => simp [countErrors]
  | cons p r ih =>
    simp only [countErrors, List.mem_cons, forall_eq_or_imp]
    cases hp : isResult p <;> simp [ih]

theorem countOk_add_countErrT {ρ : Type} (es : List (TEntry ρ)) : countOk es + countErrT es = es.length := by
  induction es with
  | nil => rfl
  | cons p r ih => simp only [countOk, countErrT, List.length_cons]; split <;> omega

theorem countErrT_zero_iff {ρ : Type} (es : List (TEntry ρ)) : countErrT es = 0 ↔ ∀ p ∈ es, p.isOk = true := by
  induction es with
  | nil => simp [countErrT]
  | cons p r ih =>
    simp only [countErrT, List.mem_cons, forall_eq_or_imp]
    cases hp : p.isOk <;> simp [ih]

/-- a batch whose counters fit its entries (what the positional theorems establish) -/
def BatchResult.Fits (b : BatchResult) : Prop :=
  b.successes + b.failures = b.entries.length ∧ b.successes = countResults b.entries

def TBatchResult.Fits {ρ : Type} (b : TBatchResult ρ) : Prop :=
  b.successes + b.failures = b.entries.length ∧ b.successes = countOk b.entries

/-- the accessor answers of a fitting batch -/
theorem okView_of_fits (b : BatchResult) (h : b.Fits) :
    ((∀ p ∈ b.entries, isResult p = true) → b.okView = .ok b.entries.length) ∧
    ((∃ p ∈ b.entries, isResult p = false) → b.okView = .err b.failures ∧ 0 < b.failures) ∧
    (∀ k, b.okView = .ok k → k = b.entries.length ∧ ∀ p ∈ b.entries, isResult p = true) ∧
    (∀ k, b.okView = .err k → k = b.failures ∧ 0 < k ∧ ∃ p ∈ b.entries, isResult p = false) := by
  obtain ⟨h1, h2⟩ := h
  have hs := countResults_add_countErrors b.entries
  have hz := countErrors_zero_iff b.entries
  have hf : b.failures = countErrors b.entries := by omega
  have hex : (∃ p ∈ b.entries, isResult p = false) ↔ countErrors b.entries ≠ 0 := by
    rw [Ne, hz]
    constructor
    · intro ⟨p, hp, hq⟩ hall; rw [hall p hp] at hq; cases hq
    · intro hn
      apply Classical.byContradiction
      intro hne
      apply hn
      intro p hp
      cases hq : isResult p
      · exact absurd ⟨p, hp, hq⟩ hne
      · rfl
  refine ⟨?_, ?_, ?_, ?_⟩
  · intro hall
    have : countErrors b.entries = 0 := hz.mpr hall
    unfold BatchResult.okView
    rw [if_neg (by omega)]
    congr 1; omega
  · intro hx
    have := hex.mp hx
    unfold BatchResult.okView
    rw [if_pos (by omega)]
    exact ⟨by rw [hf], by omega⟩
  · intro k hk
    unfold BatchResult.okView at hk
    split at hk
    · cases hk
    · injection hk with hk
      have h0 : countErrors b.entries = 0 := by omega
      exact ⟨by omega, hz.mp h0⟩
  · intro k hk
    unfold BatchResult.okView at hk
    split at hk
    · injection hk with hk
      exact ⟨by omega, by omega, hex.mpr (by omega)⟩
    · cases hk

theorem okViewT_of_fits {ρ : Type} (b : TBatchResult ρ) (h : b.Fits) :
    ((∀ p ∈ b.entries, p.isOk = true) → b.okView = .ok b.entries.length) ∧
    ((∃ p ∈ b.entries, p.isOk = false) → b.okView = .err b.failures ∧ 0 < b.failures) ∧
    (∀ k, b.okView = .ok k → k = b.entries.length ∧ ∀ p ∈ b.entries, p.isOk = true) ∧
    (∀ k, b.okView = .err k → k = b.failures ∧ 0 < k ∧ ∃ p ∈ b.entries, p.isOk = false) := by
  obtain ⟨h1, h2⟩ := h
  have hs := countOk_add_countErrT b.entries
  have hz := countErrT_zero_iff b.entries
  have hf : b.failures = countErrT b.entries := by omega
  have hex : (∃ p ∈ b.entries, p.isOk = false) ↔ countErrT b.entries ≠ 0 := by
    rw [Ne, hz]
    constructor
    · intro ⟨p, hp, hq⟩ hall; rw [hall p hp] at hq; cases hq
    · intro hn
      apply Classical.byContradiction
      intro hne
      apply hn
      intro p hp
      cases hq : p.isOk
      · exact absurd ⟨p, hp, hq⟩ hne
      · rfl
  refine ⟨?_, ?_, ?_, ?_⟩
  · intro hall
    have : countErrT b.entries = 0 := hz.mpr hall
    unfold TBatchResult.okView
    rw [if_neg (by omega)]
    congr 1; omega
  · intro hx
    have := hex.mp hx
    unfold TBatchResult.okView
    rw [if_pos (by omega)]
    exact ⟨by rw [hf], by omega⟩
  · intro k hk
    unfold TBatchResult.okView at hk
    split at hk
    · cases hk
    · injection hk with hk
      have h0 : countErrT b.entries = 0 := by omega
      exact ⟨by omega, hz.mp h0⟩
  · intro k hk
    unfold TBatchResult.okView at hk
    split at hk
    · injection hk with hk
      exact ⟨by omega, by omega, hex.mpr (by omega)⟩
    · cases hk

/-- **WS client**: every batch `batch_request` returns fits, hence its accessors answer as stated;
`is_empty` is never true (a batch of no entries is refused before it is sent) -/
theorem c12_ws_accessors (start n : Nat) (rs : List Response) (b : BatchResult) (h : wsBatch start n rs = .ok b) :
    b.Fits ∧ b.isEmpty = (n == 0) := by
  obtain ⟨hl, _, hc, hs⟩ := c12_ws_positional start n rs b h
  exact ⟨⟨by omega, hs⟩, by simp [BatchResult.isEmpty, hl]⟩

/-- **HTTP client** -/
theorem c12_http_accessors (start n : Nat) (rs : List Response) (b : BatchResult) (h : httpBatch start n rs = .ok b) :
    b.Fits ∧ b.isEmpty = (n == 0) := by
  obtain ⟨hl, _, hc, hs⟩ := c12_http_positional start n rs b h
  exact ⟨⟨by omega, hs⟩, by simp [BatchResult.isEmpty, hl]⟩

/-- typed batches, both clients -/
theorem c12_ws_typed_accessors {ρ : Type} (δ : Text → Option ρ) (start n : Nat) (rs : List Response) (b : TBatchResult ρ)
    (h : wsBatchT δ start n rs = .ok b) : b.Fits ∧ b.isEmpty = (n == 0) := by
  obtain ⟨hl, _, hc, hs⟩ := c12_ws_typed_positional δ start n rs b h
  exact ⟨⟨by omega, hs⟩, by simp [TBatchResult.isEmpty, hl]⟩

theorem c12_http_typed_accessors {ρ : Type} (δ : Text → Option ρ) (start n : Nat) (rs : List Response) (b : TBatchResult ρ)
    (h : httpBatchT δ start n rs = .ok b) : b.Fits ∧ b.isEmpty = (n == 0) := by
  obtain ⟨hl, _, hc, hs⟩ := c12_http_typed_positional δ start n rs b h
  exact ⟨⟨by omega, hs⟩, by simp [TBatchResult.isEmpty, hl]⟩

/-- the statement a caller relies on, WS client: `into_ok()` is `Ok` iff no entry failed, then with
all `n` values; otherwise `Err` with exactly `num_failed_calls()` ≥ 1 error objects -/
theorem c12_into_ok_ws (start n : Nat) (rs : List Response) (b : BatchResult) (h : wsBatch start n rs = .ok b) :
    ((∀ p ∈ b.entries, isResult p = true) → b.okView = .ok n) ∧
    ((∃ p ∈ b.entries, isResult p = false) → b.okView = .err b.failures ∧ 0 < b.failures) := by
  have hf := (c12_ws_accessors start n rs b h).1
  have hl := (c12_ws_positional start n rs b h).1
  have := okView_of_fits b hf
  exact ⟨fun ha => hl ▸ this.1 ha, this.2.1⟩

theorem c12_into_ok_http (start n : Nat) (rs : List Response) (b : BatchResult) (h : httpBatch start n rs = .ok b) :
    ((∀ p ∈ b.entries, isResult p = true) → b.okView = .ok n) ∧
    ((∃ p ∈ b.entries, isResult p = false) → b.okView = .err b.failures ∧ 0 < b.failures) := by
  have hf := (c12_http_accessors start n rs b h).1
  have hl := (c12_http_positional start n rs b h).1
  have := okView_of_fits b hf
  exact ⟨fun ha => hl ▸ this.1 ha, this.2.1⟩

/-- the counter matters: a batch whose `failed_calls` understates its entries by one hides the failure
(`into_ok` answers `Ok` with a shorter list) — why `Fits` is part of the statement, not decoration -/
example : ({ entries := [.result [49], .error placeholderErr], successes := 1, failures := 0 } : BatchResult).okView = .ok 1 := by
  decide

/-- non-vacuity: a reply with one error entry, through the real pipeline -/
example : ∃ b, wsBatch 4 2 [⟨true, .num 5, .error placeholderErr⟩, ⟨true, .num 4, .result [49]⟩] = .ok b ∧
    b.okView = .err 1 ∧ b.isEmpty = false := by
  refine ⟨_, rfl, ?_, ?_⟩ <;> decide

end Jrpc.Client
