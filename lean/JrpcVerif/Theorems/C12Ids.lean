/-
  C12 / C03 — request ids of batches in flight are reserved (fix of `batch_request`'s id allocation).

  `batch_request` uses the ids `[id, id+n)` for its `n` entries.  The allocator now advances by `n`
  (`RequestIdManager::next_batch_request_id`), so nothing handed out later — a call, a subscribe, its
  reserved unsubscribe id, another batch — can bear an id a batch in flight is using.  Before the fix it
  advanced by one: batch A of 4 got 0..4, batch B of 2 sent next got 1..3, and a reply to A that lacks
  its first and last entry has exactly B's range and completed B with A's answers.
-/
import JrpcVerif.Theorems.C12
import JrpcVerif.Proofs.ClientIdLemmas
namespace Jrpc.Client
open Jrpc

/-- **Invariant over all histories**: no id number is used by two batches in flight (queued for the
send task or pending in the manager), and no id number at or above the allocator's next id is used by
any of them — so the next call (`nextId`), subscribe (`nextId`, `nextId+1`), notification or batch
(`[nextId, nextId+n)`) gets ids that no batch in flight is using. -/
theorem c12_batch_ids_reserved (st : St) (hr : Reachable st) :
    (∀ k, cov k st ≤ 1) ∧ (∀ k, st.nextId ≤ k → cov k st = 0) :=
  batchIds_reachable st hr

theorem mem_akeys_of_alookup {κ ν : Type} [DecidableEq κ] (k : κ) (v : ν) (l : List (κ × ν)) (h : alookup k l = some v) :
    k ∈ akeys l := by
  by_cases hk : k ∈ akeys l
  · exact hk
  · rw [(alookup_none_iff k l).2 hk] at h; simp at h

/-- the id ranges of two different pending batches have no id in common -/
theorem c12_ranges_disjoint (st : St) (hr : Reachable st) (a b : Nat × Nat)
    (ha : a ∈ akeys st.core.mgr.batches) (hb : b ∈ akeys st.core.mgr.batches) (hne : a ≠ b) (k : Nat) :
    ¬ (inIv k a = true ∧ inIv k b = true) := by
  intro ⟨ka, kb⟩
  have h2 := ivCount_two k st.core.mgr.batches a b hne ha hb ka kb
  have h1 := (batchIds_reachable st hr).1 k
  simp only [cov] at h1
  omega

theorem ivCount_one (k : Nat) (l : List ((Nat × Nat) × Ticket)) (b : Nat × Nat) (hb : b ∈ akeys l) (kb : inIv k b = true) :
    1 ≤ ivCount k l := by
  induction l with
  | nil => simp [akeys] at hb
  | cons p r ih =>
    obtain ⟨iv, t2⟩ := p
    simp only [akeys, List.mem_cons] at hb
    simp only [ivCount]
    rcases hb with e | e
    · subst e; simp [kb]
    · have := ih e; omega

/-- a batch still queued for the send task and a pending one have no id in common either -/
theorem c12_queued_disjoint (st : St) (hr : Reachable st) (lo hi : Nat) (t : Ticket) (raw : Text) (i : Nat)
    (hq : st.pool[i]? = some (.batch lo hi t raw)) (b : Nat × Nat) (hb : b ∈ akeys st.core.mgr.batches) (k : Nat) :
    ¬ (inIv k (lo, hi) = true ∧ inIv k b = true) := by
  intro ⟨ka, kb⟩
  have h1 := (batchIds_reachable st hr).1 k
  have h2 := poolIv_removeAt k st.pool i _ hq
  have h3 : 1 ≤ ivCount k st.core.mgr.batches := ivCount_one k _ b hb kb
  simp only [cov] at h1
  simp only [msgIv, ka, if_true] at h2
  omega

/-- **No cross-batch fill**: if an incoming array completes a batch, and some answer in it bears an id
inside the range of the pending batch `a`, then the completed batch *is* `a` — a reply whose ids lie in
one batch's range can never be handed to another pending batch. -/
theorem c12_no_cross_batch_fill (st : St) (hr : Reachable st) (es : List Text) (t : Ticket) (out : List Response)
    (h : Effect.complete t (.batch out) ∈ (handleArray st.core es).effs)
    (a : Nat × Nat) (ha : a ∈ akeys st.core.mgr.batches)
    (r : Response) (hrm : r ∈ responsesOf es) (k : Nat) (hk : idNum r.id = some k) (hin : inIv k a = true) :
    alookup a st.core.mgr.batches = some t := by
  obtain ⟨lo, hi, hl, hlt, hw, _⟩ := c12_ws_delivery st.core es t out h
  obtain ⟨hall, _⟩ := (c12_ws_ok_iff lo (hi - lo) (responsesOf es)).1 ⟨out, hw⟩
  obtain ⟨k', hk', h1, h2⟩ := hall r hrm
  rw [hk] at hk'
  simp at hk'
  subst hk'
  have kin : inIv k (lo, hi) = true := by
    simp only [inIv, Bool.and_eq_true, decide_eq_true_eq]
    omega
  by_cases e : (lo, hi) = a
  · rw [← e]; exact hl
  · exact absurd ⟨kin, hin⟩ (c12_ranges_disjoint st hr (lo, hi) a (mem_akeys_of_alookup _ _ _ hl) ha e k)

/-! ### the former allocation (allocator + 1 per batch) violates the invariant -/

/-- batch A of 4 then batch B of 2: under the old allocation id 1 is used by both -/
theorem c12_old_allocation_refuted :
    ¬ ∀ steps : List Step, ∀ k, cov k (runOldAlloc (St.init 4 false) steps).1 ≤ 1 := by
  intro h
  exact absurd (h [.newBatch tM 4, .newBatch tM 2] 1) (by decide)

/-- `[{"jsonrpc":"2.0","id":1,"result":"a1"},{"jsonrpc":"2.0","id":2,"result":"a2"}]` -/
def tReplyA12 : Text := [91, 123, 34, 106, 115, 111, 110, 114, 112, 99, 34, 58, 34, 50, 46, 48, 34, 44, 34, 105, 100, 34, 58, 49, 44, 34, 114, 101, 115, 117, 108, 116, 34, 58, 34, 97, 49, 34, 125, 44, 123, 34, 106, 115, 111, 110, 114, 112, 99, 34, 58, 34, 50, 46, 48, 34, 44, 34, 105, 100, 34, 58, 50, 44, 34, 114, 101, 115, 117, 108, 116, 34, 58, 34, 97, 50, 34, 125, 93]

/-- A of 4, B of 2, both sent; the server answers A but its first and last entry are missing -/
def crossFillHistory : List Step := [.newBatch tM 4, .sendTask 0, .newBatch tM 2, .sendTask 0]

-- old allocation: B (operation 1) is completed with A's answers, A (operation 0) is not
example : (runOldAlloc (St.init 4 false) crossFillHistory).1.core.mgr.batches.map (·.1) = [(1, 3), (0, 4)] ∧
    (stepOldAlloc (runOldAlloc (St.init 4 false) crossFillHistory).1 (.recv tReplyA12)).fatal = none ∧
    compCount 1 (stepOldAlloc (runOldAlloc (St.init 4 false) crossFillHistory).1 (.recv tReplyA12)).effs = 1 ∧
    compCount 0 (stepOldAlloc (runOldAlloc (St.init 4 false) crossFillHistory).1 (.recv tReplyA12)).effs = 0 := by decide
-- reserved ranges: B has 4..6, the reply matches no pending batch and the connection is given up; nothing completes
example : (run (St.init 4 false) crossFillHistory).1.core.mgr.batches.map (·.1) = [(4, 6), (0, 4)] ∧
    (step (run (St.init 4 false) crossFillHistory).1 (.recv tReplyA12)).fatal = some (.batch (.notPendingRange 1 3)) ∧
    compCount 1 (step (run (St.init 4 false) crossFillHistory).1 (.recv tReplyA12)).effs = 0 := by decide
-- the invariant on the same history, and a call issued next gets id 6
example : (∀ k, k < 8 → cov k (run (St.init 4 false) crossFillHistory).1 ≤ 1) ∧
    (run (St.init 4 false) crossFillHistory).1.nextId = 6 := by decide

end Jrpc.Client
