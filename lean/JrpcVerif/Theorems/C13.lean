/-
  C13 — method registry: names are unique and failed registrations change nothing.

  All theorems quantify over **every history** `ops : List Op` (any length, any names, any number
  of modules / clones) and talk about the implementation-layer model of `Model/Registry.lean`
  (heap of reference-counted tables, `Arc::make_mut`).  `viewAt s h` is what handle `h` denotes:
  `none` if it was dropped/moved, else (is it an `RpcModule`, its table); the map it denotes is
  `fun n => Tbl.find t n`.  Helper lemmas: `Proofs/RegistryLemmas.lean`.
-/
import JrpcVerif.Proofs.RegistryLemmas
namespace Jrpc.Registry

/-- the state after a history, starting from nothing -/
abbrev after (ops : List Op) : State := (run State.init ops).1

theorem vAt_vview_fun (s : State) : vAt (vview s) = viewAt s := funext (vAt_vview s)

theorem run_append (s : State) (a b : List Op) : (run s (a ++ b)).1 = (run (run s a).1 b).1 := by
  induction a generalizing s with
  | nil => rfl
  | cons op r ih => simp only [List.cons_append, run]; exact ih _

/-! ### invariants -/

/-- C13 (names are unique) — after every history the strong count of every table cell equals the
number of live handles pointing at it, and the keys of every live module are pairwise distinct -/
theorem c13_inv (ops : List Op) :
    Inv (after ops) ∧
    ∀ j im t, viewAt (after ops) j = some (im, t) → (Tbl.names t).Nodup := by
  refine ⟨reachable_inv ops, ?_⟩
  intro j im t h
  rw [← Tbl.uniq_iff_nodup]
  rw [← vAt_vview] at h
  exact reachable_vinv ops j im t h

/-! ### refinement: shared copy-on-write tables behave like independent maps -/

/-- C13 (refinement, one step) — after any history, every operation on the reference-counted heap
has exactly the effect and the result it has in the specification layer, where every module owns
a private association list and `clone` is a deep copy -/
theorem c13_refines (ops : List Op) (op : Op) :
    vview (step (after ops) op).1 = (vstep (vview (after ops)) op).1 ∧
    (step (after ops) op).2 = (vstep (vview (after ops)) op).2 :=
  let S := step_sim (reachable_inv ops) op
  ⟨S.view, S.out⟩

/-- C13 (refinement, whole histories) — the results of all operations of a history and the final
denotation of every handle coincide with the sharing-free specification run -/
theorem c13_refines_trace (ops : List Op) :
    vview (after ops) = (vrun [] ops).1 ∧ (run State.init ops).2 = (vrun [] ops).2 := by
  have h := run_sim inv_init ops
  rw [vview_init] at h
  exact ⟨h.2.1, h.2.2⟩

/-- C13 (clone isolation, one step) — an operation leaves every live handle it does not name
exactly as it was (same table, entry for entry), whatever is shared underneath -/
theorem c13_clone_isolation (ops : List Op) (op : Op) (j : Nat) (x : Bool × Tbl)
    (hlive : viewAt (after ops) j = some x) (hj : j ∉ op.touched) :
    viewAt (step (after ops) op).1 j = some x := by
  have S := step_sim (reachable_inv ops) op
  have hl : j < (vview (after ops)).length := vAt_lt (x := x) (by rw [vAt_vview]; exact hlive)
  rw [← vAt_vview, S.view, vstep_frame _ _ _ hj hl, vAt_vview, hlive]

/-- C13 (clone) — `clone` returns a new handle that denotes the same table; the original keeps its own -/
theorem c13_clone_snapshot (ops : List Op) (i : Nat) (fr im : Bool) (t : Tbl)
    (h : viewAt (after ops) i = some (im, t)) :
    (step (after ops) (.clone i fr)).2 = .handle (after ops).handles.length ∧
    viewAt (step (after ops) (.clone i fr)).1 (after ops).handles.length = some (im && !fr, t) ∧
    viewAt (step (after ops) (.clone i fr)).1 i = some (im, t) := by
  have S := step_sim (reachable_inv ops) (.clone i fr)
  have hv : vAt (vview (after ops)) i = some (im, t) := by rw [vAt_vview]; exact h
  refine ⟨?_, ?_, c13_clone_isolation ops _ i _ h (by simp [Op.touched])⟩
  · rw [S.out]; simp [vstep, hv]
  · rw [← vAt_vview, S.view]; simp [vstep, hv, vAt_push]

/-- C13 (clone isolation, histories) — a handle (e.g. a clone taken earlier) is unaffected by any
later sequence of operations on other handles -/
theorem c13_clone_isolated_run (ops ops2 : List Op) (j : Nat) (x : Bool × Tbl)
    (hlive : viewAt (after ops) j = some x) (h : ∀ op, op ∈ ops2 → j ∉ op.touched) :
    viewAt (after (ops ++ ops2)) j = some x := by
  induction ops2 generalizing ops with
  | nil => simpa using hlive
  | cons op r ih =>
    have h1 := c13_clone_isolation ops op j x hlive (h op List.mem_cons_self)
    have e : (step (after ops) op).1 = after (ops ++ [op]) := by
      simp only [after, run_append, run]
    rw [e] at h1
    have := ih (ops ++ [op]) h1 (fun o ho => h o (List.mem_cons_of_mem _ ho))
    simpa using this

/-! ### failed operations -/

/-- C13 (failed registrations change nothing) — an operation that returns a `RegisterMethodError`
leaves *every* handle denoting exactly the table it denoted before (the target included: a
subscription's two names and a merge's many names are all-or-nothing); the only effect is Rust's
move semantics: the module passed by value to a failed `merge` is gone -/
theorem c13_failed_is_noop (ops : List Op) (op : Op) (e : Err)
    (h : (step (after ops) op).2 = .err e) (j : Nat) :
    viewAt (step (after ops) op).1 j =
      if op.consumed = some j then none else viewAt (after ops) j := by
  have S := step_sim (reachable_inv ops) op
  rw [S.out] at h
  rw [← vAt_vview, S.view, vstep_err h]
  cases hc : op.consumed with
  | none => simp [vAt_vview]
  | some src =>
    simp only [Option.some.injEq]
    by_cases hl : src < (vview (after ops)).length
    · rw [vAt_set _ _ _ _ hl, vAt_vview]
      by_cases hj : j = src <;> simp [hj, eq_comm]
    · rw [List.set_eq_of_length_le (Nat.le_of_not_lt hl), vAt_vview]
      by_cases hj : src = j
      · subst hj
        have : viewAt (after ops) src = none := by
          rw [← vAt_vview]; simp [vAt, List.getElem?_eq_none (Nat.le_of_not_lt hl)]
        simp [this]
      · simp [hj]

/-- C13 (when registrations fail) — an applicable operation fails **iff** the statement's
precondition for failure holds of the maps before it: `register_*` on a taken name;
`register_subscription` with equal names or either name taken; `register_alias` on a taken alias
or a missing target; `merge` with any shared name -/
theorem c13_fails_iff (ops : List Op) (op : Op) (ha : op.applicable (viewAt (after ops))) :
    (∃ e, (step (after ops) op).2 = .err e) ↔ op.conflict (viewAt (after ops)) := by
  have S := step_sim (reachable_inv ops) op
  rw [S.out, ← vAt_vview_fun]
  rw [← vAt_vview_fun] at ha
  exact vstep_err_iff _ op ha

/-! ### successful operations -/

/-- C13 (success adds exactly the named entries) — a registration-like operation that returns
`Ok` changes its target from `t` to `t'` such that: every named entry is bound as named, every
other name is bound as before, none of the named entries was bound before (nothing overwritten),
the key set is exactly old ∪ named and stays duplicate-free; every other live handle that the
operation does not name is unchanged -/
theorem c13_success_adds_exactly (ops : List Op) (op : Op) (i : Nat)
    (h : (step (after ops) op).2 = .ok) (ht : op.target = some i) :
    ∃ im t t', viewAt (after ops) i = some (im, t) ∧
      viewAt (step (after ops) op).1 i = some (im, t') ∧
      AddsExactly t (op.added (viewAt (after ops))) t' ∧
      (Tbl.names t').Nodup ∧
      (∀ k, k ∈ Tbl.names t' ↔ k ∈ Tbl.names t ∨ k ∈ Tbl.names (op.added (viewAt (after ops)))) ∧
      (∀ j x, viewAt (after ops) j = some x → j ∉ op.touched →
        viewAt (step (after ops) op).1 j = some x) := by
  have S := step_sim (reachable_inv ops) op
  rw [S.out] at h
  obtain ⟨im, t, t', h1, h2, h3⟩ := vstep_ok (reachable_vinv ops) h ht
  rw [vAt_vview_fun] at h3
  rw [vAt_vview] at h1
  rw [← S.view, vAt_vview] at h2
  refine ⟨im, t, t', h1, h2, h3, (Tbl.uniq_iff_nodup t').mp h3.uniq, ?_,
    fun j x hx hj => c13_clone_isolation ops op j x hx hj⟩
  intro k
  rw [Tbl.mem_names, Tbl.mem_names, Tbl.mem_names, h3.find k]
  cases Tbl.find (op.added (viewAt (after ops))) k <;> simp

/-- C13 (remove) — `remove_method` returns the callback that was bound (if any) and afterwards
exactly that name is unbound -/
theorem c13_remove (ops : List Op) (i : Nat) (n : Name) (t : Tbl)
    (h : viewAt (after ops) i = some (true, t)) :
    (step (after ops) (.remove i n)).2 = .removed (Tbl.find t n) ∧
    ∃ t', viewAt (step (after ops) (.remove i n)).1 i = some (true, t') ∧
      ∀ k, Tbl.find t' k = if k = n then none else Tbl.find t k := by
  have S := step_sim (reachable_inv ops) (.remove i n)
  have hv : vAt (vview (after ops)) i = some (true, t) := by rw [vAt_vview]; exact h
  refine ⟨by rw [S.out]; simp [vstep, hv], Tbl.erase t n, ?_, ?_⟩
  · rw [← vAt_vview, S.view]; simp [vstep, hv, vAt_set _ _ _ _ (vAt_lt hv)]
  · intro k; rw [Tbl.find_erase]
    by_cases hk : k = n
    · simp [hk]
    · have : ¬ n = k := fun e => hk e.symm
      simp [hk, this]

/-! ### dispatch -/

/-- C13 (dispatch) — `call` changes nothing and runs the callback currently bound to the name in
*that* handle's map; the answer is "method not found" exactly when the name is unbound there -/
theorem c13_dispatch (ops : List Op) (i : Nat) (n : Name) :
    (step (after ops) (.call i n)).1 = after ops ∧
    (step (after ops) (.call i n)).2 =
      (match viewAt (after ops) i with
       | none => Out.dead
       | some (_, t) =>
         match Tbl.find t n with
         | some cb => .called cb
         | none => .methodNotFound) := by
  constructor
  · simp only [step]; cases handleAt (after ops) i <;> rfl
  · simp only [step, viewAt]
    cases handleAt (after ops) i with
    | none => rfl
    | some h => rfl

/-- C13 (method not found ⇔ unbound) -/
theorem c13_not_found_iff (ops : List Op) (i : Nat) (n : Name) (im : Bool) (t : Tbl)
    (h : viewAt (after ops) i = some (im, t)) :
    (step (after ops) (.call i n)).2 = .methodNotFound ↔ Tbl.find t n = none := by
  rw [(c13_dispatch ops i n).2, h]
  simp only []
  cases Tbl.find t n <;> simp

/-- C13 (never registered) — a fresh module binds nothing -/
theorem c13_new_unbound (ops : List Op) (im : Bool) :
    (step (after ops) (.new im)).2 = .handle (after ops).handles.length ∧
    viewAt (step (after ops) (.new im)).1 (after ops).handles.length = some (im, []) := by
  have S := step_sim (reachable_inv ops) (.new im)
  refine ⟨by rw [S.out]; simp [vstep], ?_⟩
  rw [← vAt_vview, S.view]; simp [vstep, vAt_push]

/-- C13 (method_names) — `method_names` lists exactly the bound names, each once -/
theorem c13_names (ops : List Op) (i : Nat) (im : Bool) (t : Tbl)
    (h : viewAt (after ops) i = some (im, t)) :
    (step (after ops) (.names i)).2 = .names (Tbl.names t) ∧ (Tbl.names t).Nodup ∧
    ∀ k, k ∈ Tbl.names t ↔ Tbl.find t k ≠ none := by
  refine ⟨?_, (c13_inv ops).2 i im t h, ?_⟩
  · simp only [step, viewAt] at h ⊢
    cases hh : handleAt (after ops) i with
    | none => simp [hh] at h
    | some hd => simp [hh] at h; simp [h.2]
  · intro k; rw [Tbl.mem_names]; cases Tbl.find t k <;> simp

/-! ### non-vacuity: concrete histories that meet the hypotheses -/

/-- a history with a shared table: module 0 registers name 1, is cloned (handle 1), then tries the
taken name again (fails) and registers name 2 (copy-on-write) -/
def exHist : List Op :=
  [.new true, .reg .sync 0 1 100, .clone 0 false, .reg .async 0 1 101, .reg .blocking 0 2 102]

example : (run State.init exHist).2 = [.handle 0, .ok, .handle 1, .err (.already 1), .ok] := by decide
-- the clone still denotes the one-entry table, the original has two
example : viewAt (after exHist) 1 = some (true, [(1, ⟨.sync, 100⟩)]) := by decide
example : viewAt (after exHist) 0 = some (true, [(1, ⟨.sync, 100⟩), (2, ⟨.async, 102⟩)]) := by decide
-- the table really was shared when the failing registration ran (strong count 2)
example : rcAt (after (exHist.take 3)) 0 = 2 := by decide

-- hypotheses of c13_failed_is_noop / c13_fails_iff: each failure kind occurs on a reachable state
example : (step (after exHist) (.reg .sync 0 2 7)).2 = .err (.already 2) := by decide
example : (step (after exHist) (.regsub 0 5 5 7)).2 = .err (.subConflict 5) := by decide
example : (step (after exHist) (.regsub 0 5 1 7)).2 = .err (.already 1) := by decide
example : (step (after exHist) (.regsub 0 2 5 7)).2 = .err (.already 2) := by decide
example : (step (after exHist) (.alias 0 1 2)).2 = .err (.already 1) := by decide
example : (step (after exHist) (.alias 0 5 9)).2 = .err (.notFound 9) := by decide
example : (step (after exHist) (.merge 0 1)).2 = .err (.already 1) := by decide
example : (Op.merge 0 1).applicable (viewAt (after exHist)) :=
  ⟨by decide, ⟨(true, [(1, ⟨.sync, 100⟩), (2, ⟨.async, 102⟩)]), by decide⟩, ⟨(true, [(1, ⟨.sync, 100⟩)]), by decide⟩⟩
example : (Op.regsub 0 5 6 7).applicable (viewAt (after exHist)) :=
  ⟨[(1, ⟨.sync, 100⟩), (2, ⟨.async, 102⟩)], by decide⟩
-- a failed merge consumes its argument and leaves the target alone
example : viewAt (step (after exHist) (.merge 0 1)).1 1 = none := by decide
example : viewAt (step (after exHist) (.merge 0 1)).1 0 = viewAt (after exHist) 0 := by decide

-- hypotheses of c13_success_adds_exactly: every registration-like op can succeed
example : (step (after exHist) (.regsub 0 5 6 7)).2 = .ok ∧ (Op.regsub 0 5 6 7).target = some 0 := by decide
example : (step (after exHist) (.alias 0 5 2)).2 = .ok := by decide
example : (step (after (exHist ++ [.new false, .reg .sync 2 9 200])) (.merge 0 2)).2 = .ok := by decide
example : viewAt (step (after (exHist ++ [.new false, .reg .sync 2 9 200])) (.merge 0 2)).1 0 =
    some (true, [(1, ⟨.sync, 100⟩), (2, ⟨.async, 102⟩), (9, ⟨.sync, 200⟩)]) := by decide

-- hypotheses of c13_clone_isolation / c13_clone_isolated_run
example : viewAt (after exHist) 1 = some (true, [(1, ⟨.sync, 100⟩)]) ∧ 1 ∉ (Op.remove 0 1).touched := by decide
example : viewAt (after (exHist ++ [.remove 0 1, .regsub 0 1 3 9])) 1 = some (true, [(1, ⟨.sync, 100⟩)]) := by decide

-- dispatch: bound ⇒ that callback, unbound ⇒ method not found, removed ⇒ method not found
example : (step (after exHist) (.call 0 2)).2 = .called ⟨.async, 102⟩ := by decide
example : (step (after exHist) (.call 1 2)).2 = .methodNotFound := by decide
example : (step (after (exHist ++ [.remove 0 1])) (.call 0 1)).2 = .methodNotFound := by decide
example : (step (after (exHist ++ [.remove 0 1])) (.call 1 1)).2 = .called ⟨.sync, 100⟩ := by decide

end Jrpc.Registry
