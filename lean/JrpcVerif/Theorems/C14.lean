/-
  C14 — host filter: only allow-listed authorities ever reach the RPC service.

  "With host filtering enabled, a request is passed on only if its Host header / URI authority
   parses and matches at least one configured allow-list entry in host (literal or * wildcard
   segments) and in port (equal, both default, or entry port *); every other request is answered
   403 - or 400 when no single authority can be determined, e.g. Host header and URI authority
   disagree - and no handler runs.  An authority that matches the only configured entry is always
   admitted."

  All theorems are for ALL allow-lists and ALL requests (arbitrary verdicts of the external
  `http::Uri` parser included).  `patMatch` is the pattern semantics (Model/HostFilter.lean:
  `tokMatch` on the router's tokenisation); `c14_literal_entry_exact` and `c14_star_dot_entry`
  spell it out for the two pattern forms the statement names.
-/
import JrpcVerif.Proofs.HostFilterLemmas
namespace Jrpc

/-! ### generated table (`fn default_port`, regenerated from authority.rs on every run) -/

/-- the translator recognised `fn default_port` and its call site -/
theorem c14_translator_ok : Gen.defaultPortsTranslatorOk = true := by decide

/-- the scheme table is the registered one: http/ws 80, https/wss 443, ftp 21; no scheme or an
unknown scheme has no default; every default fits a `u16` -/
theorem c14_default_ports :
    Gen.defaultPort (some [104, 116, 116, 112]) = some 80 ∧          -- http
    Gen.defaultPort (some [119, 115]) = some 80 ∧                    -- ws
    Gen.defaultPort (some [104, 116, 116, 112, 115]) = some 443 ∧    -- https
    Gen.defaultPort (some [119, 115, 115]) = some 443 ∧              -- wss
    Gen.defaultPort (some [102, 116, 112]) = some 21 ∧               -- ftp
    Gen.defaultPort none = none ∧
    Gen.defaultPort (some [72, 84, 84, 80]) = none ∧                 -- "HTTP": the table is case-sensitive
    (∀ e ∈ Gen.defaultPortTable, e.2 < 65536) := by
  decide

/-! ### soundness -/

/-- A request is forwarded only if a single authority `a` is determined — some consulted source
(the one textual Host header, the URI authority) yields `a` and every consulted source that
parses yields the same `a` — and some configured entry matches `a` in host and port. -/
theorem c14_sound (allow : List Authority) (req : HttpReq)
    (h : gate (some allow) req = .forward) :
    ∃ a : Authority,
      fromHttpRequest req = some a ∧
      (∃ u ∈ consulted req, authorityOf u = some a) ∧
      (∀ u ∈ consulted req, ∀ a', authorityOf u = some a' → a' = a) ∧
      ∃ e ∈ allow, patMatch e.host a.host = true ∧ portOk e.port a.port = true := by
  unfold gate at h
  split at h
  · simp at h
  · rename_i a ha
    simp only at h
    split at h
    · rename_i hrec
      obtain ⟨h1, h2⟩ := fromHttpRequest_some ha
      exact ⟨a, ha, h1, h2, recognizeAuthority_sound hrec⟩
    · simp at h

/-- non-vacuity: `*.web3.site:*` forwards `Host: parity.web3.site:8180` -/
example :
    gate (some [{ host := [42, 46, 119, 101, 98, 51, 46, 115, 105, 116, 101], port := .any }])
      { hostHeaders := [.text (.ok { scheme := none, authority := [112, 97, 114, 105, 116, 121, 46, 119, 101, 98, 51, 46, 115, 105, 116, 101, 58, 56, 49, 56, 48], host := [112, 97, 114, 105, 116, 121, 46, 119, 101, 98, 51, 46, 115, 105, 116, 101] })],
        uriAuthority := none } = .forward := by decide

/-! ### rejection codes -/

/-- 400 exactly when no single authority can be determined (no consulted source parses, or two
of them disagree); a determined authority that matches no entry is answered 403; whatever is not
forwarded is answered 403 or 400; the inner service runs exactly when the request is forwarded. -/
theorem c14_reject_codes (allow : List Authority) (req : HttpReq) :
    (serve (some allow) req = (some 400, 0) ↔
      ((∀ u ∈ consulted req, authorityOf u = none) ∨
       (∃ u1 ∈ consulted req, ∃ u2 ∈ consulted req, ∃ a1 a2,
          authorityOf u1 = some a1 ∧ authorityOf u2 = some a2 ∧ a1 ≠ a2))) ∧
    (∀ a, fromHttpRequest req = some a →
      (∀ e ∈ allow, ¬ (patMatch e.host a.host = true ∧ portOk e.port a.port = true)) →
      serve (some allow) req = (some 403, 0)) ∧
    (gate (some allow) req ≠ .forward →
      serve (some allow) req = (some 403, 0) ∨ serve (some allow) req = (some 400, 0)) ∧
    ((serve (some allow) req).2 = 1 ↔ gate (some allow) req = .forward) ∧
    ((serve (some allow) req).2 = 0 ∨ (serve (some allow) req).2 = 1) := by
  refine ⟨?_, ?_, ?_, ?_, ?_⟩
  · rw [← fromHttpRequest_none_iff]
    unfold serve gate
    cases hf : fromHttpRequest req with
    | none => simp
    | some a =>
      simp only
      cases recognizeAuthority allow a <;> simp
  · intro a ha hno
    have hrec : recognizeAuthority allow a = false := by
      cases hr : recognizeAuthority allow a with
      | false => rfl
      | true =>
        obtain ⟨e, he, hm, hp⟩ := recognizeAuthority_sound hr
        exact absurd ⟨hm, hp⟩ (hno e he)
    simp [serve, gate, ha, hrec]
  · intro h
    unfold serve
    cases hg : gate (some allow) req with
    | forward => exact absurd hg h
    | forbidden => exact Or.inl rfl
    | malformed => exact Or.inr rfl
  · unfold serve
    cases hg : gate (some allow) req <;> simp
  · unfold serve
    cases hg : gate (some allow) req <;> simp

/-- non-vacuity (400): Host `example.com:9999` and URI authority `example.com` disagree -/
example :
    serve (some [{ host := [101, 120, 97, 109, 112, 108, 101, 46, 99, 111, 109], port := .any }])
      { hostHeaders := [.text (.ok { scheme := none, authority := [101, 120, 97, 109, 112, 108, 101, 46, 99, 111, 109, 58, 57, 57, 57, 57], host := [101, 120, 97, 109, 112, 108, 101, 46, 99, 111, 109] })],
        uriAuthority := some (.ok { scheme := none, authority := [101, 120, 97, 109, 112, 108, 101, 46, 99, 111, 109], host := [101, 120, 97, 109, 112, 108, 101, 46, 99, 111, 109] }) } = (some 400, 0) := by decide

/-- non-vacuity (403): entry `a.b:80`, Host `a.c:80` -/
example :
    serve (some [{ host := [97, 46, 98], port := .fixed 80 }])
      { hostHeaders := [.text (.ok { scheme := none, authority := [97, 46, 99, 58, 56, 48], host := [97, 46, 99] })],
        uriAuthority := none } = (some 403, 0) := by decide

/-! ### completeness for a single entry -/

/-- An authority that matches the only configured entry is always admitted. -/
theorem c14_single_entry_complete (e a : Authority) (req : HttpReq)
    (ha : fromHttpRequest req = some a)
    (hm : patMatch e.host a.host = true) (hp : portOk e.port a.port = true) :
    gate (some [e]) req = .forward ∧ serve (some [e]) req = (none, 1) := by
  have hg : gate (some [e]) req = .forward := by
    simp [gate, ha, recognizeAuthority_single hm hp]
  exact ⟨hg, by simp [serve, hg]⟩

/-- with a single entry the filter decides exactly the statement's relation -/
theorem c14_single_entry_iff (e : Authority) (req : HttpReq) :
    gate (some [e]) req = .forward ↔
      ∃ a, fromHttpRequest req = some a ∧ patMatch e.host a.host = true ∧ portOk e.port a.port = true := by
  constructor
  · intro h
    obtain ⟨a, ha, _, _, e', he', hm, hp⟩ := c14_sound [e] req h
    simp at he'
    subst he'
    exact ⟨a, ha, hm, hp⟩
  · rintro ⟨a, ha, hm, hp⟩
    exact (c14_single_entry_complete e a req ha hm hp).1

/-- non-vacuity: entry `https://parity.io:443` (port folded to default) admits `https://parity.io` -/
example :
    fromHttpRequest
      { hostHeaders := [.text (.ok { scheme := some [104, 116, 116, 112, 115], authority := [112, 97, 114, 105, 116, 121, 46, 105, 111], host := [112, 97, 114, 105, 116, 121, 46, 105, 111] })],
        uriAuthority := none } = some { host := [112, 97, 114, 105, 116, 121, 46, 105, 111], port := .default } ∧
    authorityOf (.ok { scheme := some [104, 116, 116, 112, 115], authority := [112, 97, 114, 105, 116, 121, 46, 105, 111, 58, 52, 52, 51], host := [112, 97, 114, 105, 116, 121, 46, 105, 111] }) = some { host := [112, 97, 114, 105, 116, 121, 46, 105, 111], port := .default } ∧
    patMatch [112, 97, 114, 105, 116, 121, 46, 105, 111] [112, 97, 114, 105, 116, 121, 46, 105, 111] = true ∧
    portOk .default .default = true := by decide

/-- Completeness is claimed for ONE entry only, and that restriction is necessary: the router
consults only the best-matching pattern's ports.  Allow-list [`parity.io:443`, `*.io:9`], request
`parity.io:9`: the second entry matches in host and port, the request is rejected. -/
example :
    let allow : List Authority :=
      [{ host := [112, 97, 114, 105, 116, 121, 46, 105, 111], port := .fixed 443 },
       { host := [42, 46, 105, 111], port := .fixed 9 }]
    let a : Authority := { host := [112, 97, 114, 105, 116, 121, 46, 105, 111], port := .fixed 9 }
    (∃ e ∈ allow, patMatch e.host a.host = true ∧ portOk e.port a.port = true) ∧
    recognizeAuthority allow a = false := by
  refine ⟨⟨{ host := [42, 46, 105, 111], port := .fixed 9 }, by simp, by decide, by decide⟩, by decide⟩

/-! ### userinfo and the port -/

/-- The userinfo never influences the result: for an authority text `userinfo@host<rest>` the
filter computes exactly what it computes for `host<rest>` — the host the `http` crate reports and
the port denoted by `<rest>` (or the same error).  (`host`, `<rest>` contain no `@`: the host
follows the LAST `@`.) -/
theorem c14_userinfo_port (sc : Option Text) (u h ps : Text) (hh : 64 ∉ h) (hp : 64 ∉ ps) :
    authorityOf (.ok { scheme := sc, authority := u ++ 64 :: (h ++ ps), host := h }) =
      authorityOf (.ok { scheme := sc, authority := h ++ ps, host := h }) ∧
    authorityOf (.ok { scheme := sc, authority := h ++ ps, host := h }) =
      (portOfText sc ps).map (fun p => { host := h, port := p }) := by
  have h1 := maybePortText_userinfo sc u h ps hh hp
  have h2 := maybePortText_plain sc h ps hh hp
  constructor
  · simp only [authorityOf, authorityOfParts, h1, h2]
  · simp only [authorityOf, authorityOfParts, h2]
    cases portOfText sc ps <;> rfl

/-- non-vacuity: `useruser:80@h.io:81` (the input that was answered 400 before the fix) -/
example :
    authorityOf (.ok { scheme := none, authority := [117, 115, 101, 114, 117, 115, 101, 114, 58, 56, 48] ++ 64 :: ([104, 46, 105, 111] ++ [58, 56, 49]), host := [104, 46, 105, 111] }) = some { host := [104, 46, 105, 111], port := .fixed 81 } ∧
    (64 : Nat) ∉ [104, 46, 105, 111] ∧ (64 : Nat) ∉ [58, 56, 49] := by decide

/-- Single-entry completeness with the parse hypothesis discharged: a request whose only Host
header is `userinfo@host<rest>` (no URI authority), where `<rest>` denotes the port `p`, is
forwarded whenever the only entry matches `host` and `p`. -/
theorem c14_single_entry_complete_userinfo (e : Authority) (sc : Option Text) (u h ps : Text) (p : Port)
    (hh : 64 ∉ h) (hp : 64 ∉ ps) (hport : portOfText sc ps = some p)
    (hm : patMatch e.host h = true) (hok : portOk e.port p = true) :
    gate (some [e])
      { hostHeaders := [.text (.ok { scheme := sc, authority := u ++ 64 :: (h ++ ps), host := h })],
        uriAuthority := none } = .forward := by
  have ha := c14_userinfo_port sc u h ps hh hp
  refine (c14_single_entry_complete e { host := h, port := p } _ ?_ hm hok).1
  simp [fromHttpRequest, readHeaderValue, combineSources, ha.1, ha.2, hport]

/-- non-vacuity: the hypotheses are met by `Host: useruser:80@h.io:81` and the entry `h.io:81` -/
example :
    portOfText none [58, 56, 49] = some (.fixed 81) ∧
    patMatch [104, 46, 105, 111] [104, 46, 105, 111] = true ∧
    portOk (.fixed 81) (.fixed 81) = true := by decide

/-! ### what the patterns mean -/

/-- an entry whose host has no wildcard segment admits exactly that host (case-sensitively) -/
theorem c14_literal_entry_exact (p h : Text) (hp : plainPat p = true)
    (hp0 : p.head? ≠ some 47) (hh0 : h.head? ≠ some 47) :
    patMatch p h = true ↔ h = p :=
  patMatch_literal hp hp0 hh0

/-- an entry `*.suffix` admits exactly the hosts `x.suffix` with `x` non-empty -/
theorem c14_star_dot_entry (q h : Text) (hq : plainPat q = true) (hh0 : h.head? ≠ some 47) :
    patMatch (42 :: 46 :: q) h = true ↔ ∃ x : Text, x ≠ [] ∧ h = x ++ 46 :: q :=
  patMatch_star_dot hq hh0

/-- non-vacuity: `web3.site` and `[::1]` are wildcard-free patterns -/
example : plainPat [119, 101, 98, 51, 46, 115, 105, 116, 101] = true ∧ plainPat [91, 58, 58, 49, 93] = true := by
  decide

end Jrpc
