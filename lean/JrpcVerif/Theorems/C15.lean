/-
  C15 — wire types: serialise/parse round trips; only valid JSON-RPC 2.0 is emitted.
  (error-code clause: Theorems/C15Codes.lean over the generated tables)
-/
import JrpcVerif.Model.Wire
import JrpcVerif.Proofs.TextLemmas
namespace Jrpc

/-- the id domain of the library: null, u64, string -/
def Id.inDomain : Id → Prop
  | .null => True
  | .num n => n < 18446744073709551616
  | .str _ => True

def SubId.inDomain : SubId → Prop
  | .num n => n < 18446744073709551616
  | .str _ => True

theorem decodeU64_encodeString (s : Text) : decodeU64 (encodeString s) = none := by
  unfold decodeU64 decodeNat encodeString
  cases h : encodeStrBody s ++ [34] with
  | nil => simp at h
  | cons c r => simp [digitsVal, isDigit]

/-- C15.1 — `Id`: parse ∘ serialise = id on the whole id domain -/
theorem c15_id_rt (i : Id) (h : i.inDomain) : decodeId (encodeId i) = some i := by
  cases i with
  | null => simp [encodeId, decodeId]
  | num n =>
    obtain ⟨d, rest, hd, hlt⟩ := encodeNat_head n
    have hne : encodeNat n ≠ tNull := by
      rw [hd]; simp [tNull]; omega
    simp [encodeId, decodeId, hne, decodeU64_encodeNat n h]
  | str s =>
    have hne : encodeString s ≠ tNull := by simp [encodeString, tNull]
    simp [encodeId, decodeId, hne, decodeU64_encodeString, decodeString_encodeString]

/-- C15.1 — re-serialising the parsed id reproduces the bytes -/
theorem c15_id_bytes (i : Id) (h : i.inDomain) :
    (decodeId (encodeId i)).map encodeId = some (encodeId i) := by
  simp [c15_id_rt i h]

/-- C15.1 — `SubscriptionId` -/
theorem c15_subid_rt (i : SubId) (h : i.inDomain) : decodeSubId (encodeSubId i) = some i := by
  cases i with
  | num n => simp [encodeSubId, decodeSubId, decodeU64_encodeNat n h]
  | str s => simp [encodeSubId, decodeSubId, decodeU64_encodeString, decodeString_encodeString]

/-- typed ids: a number never reads back as a string and vice versa (`Number 5 ≠ Str "5"`) -/
theorem c15_id_kind_preserved (n : Nat) (s : Text) (h : n < 18446744073709551616) :
    decodeId (encodeId (.num n)) ≠ decodeId (encodeId (.str s)) := by
  rw [c15_id_rt (.num n) h, c15_id_rt (.str s) trivial]; simp

-- non-vacuity
example : (Id.num 18446744073709551615).inDomain := by simp [Id.inDomain]
example : decodeId (lit "18446744073709551616") = none := by decide

end Jrpc
