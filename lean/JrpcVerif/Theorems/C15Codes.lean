/-
  C15 (error-code clause) — over the tables GENERATED from types/src/error.rs on every run.
  "every integer error code maps to an error kind and back to the same integer, and every error
   kind the library defines maps to its code and back to the same kind."
-/
import JrpcVerif.Gen.ErrorCodes
namespace Jrpc.Gen

/-- the translator recognised every pattern it relies on -/
theorem c15_translator_ok : errorCodesTranslatorOk = true := by decide

/-- every integer (in particular every `i32`) code maps to a kind and back to the same integer -/
theorem c15_code_rt_int (c : Int) : codeOf (kindOf c) = c := by
  unfold kindOf
  repeat' split
  all_goals simp_all [codeOf]

/-- every payload-free kind the library defines maps to its code and back to the same kind -/
theorem c15_code_rt_named : ∀ k ∈ namedKinds, kindOf (codeOf k) = k := by
  decide

/-- a code that is not the code of a named kind is a `ServerError` carrying exactly that code -/
theorem c15_code_rt_server (c : Int) (h : ∀ k ∈ namedKinds, codeOf k ≠ c) :
    kindOf c = .ServerError c ∧ kindOf (codeOf (.ServerError c)) = .ServerError c := by
  have h' : kindOf c = .ServerError c := by
    unfold kindOf
    repeat' split
    all_goals first
      | rfl
      | (exfalso; rename_i hc; subst hc; revert h; decide)
  exact ⟨h', by simpa [codeOf] using h'⟩

/-- full statement for kinds: every kind whose payload (if any) is not a reserved named code
round-trips; the excluded `ServerError c` with `c` a named code are exactly the values
`From<i32>` can never produce. -/
theorem c15_code_rt_kind (k : ErrKind)
    (h : ∀ c, k = .ServerError c → ∀ k' ∈ namedKinds, codeOf k' ≠ c) : kindOf (codeOf k) = k := by
  cases k with
  | ServerError c => exact (c15_code_rt_server c (h c rfl)).2
  | _ => decide

/-- distinct named kinds have distinct codes (the table is injective) -/
theorem c15_codes_injective : ∀ k ∈ namedKinds, ∀ k' ∈ namedKinds, codeOf k = codeOf k' → k = k' := by
  decide

/-- non-vacuity: the hypothesis of `c15_code_rt_server` is met by an ordinary application code -/
example : ∀ k ∈ namedKinds, codeOf k ≠ (-32000) := by decide

end Jrpc.Gen
