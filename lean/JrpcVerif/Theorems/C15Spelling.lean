/-
  Member names are JSON strings: how a name is *spelled* (plain, `id`, mixed escapes) is
  invisible to every struct visitor — only the decoded names and the raw values matter.
-/
import JrpcVerif.Model.Wire
import JrpcVerif.Model.ServerMsg
namespace Jrpc

/-- two object texts with the same decoded member list are read identically by every derived
struct visitor (whatever the set of known fields and the unknown-field policy) -/
theorem structFields_spelling (known : List Text) (deny : Bool) (raw1 raw2 : Text)
    (ms1 ms2 : List (Text × Text)) (h1 : members raw1 = some ms1) (h2 : members raw2 = some ms2)
    (h : decodeKeys ms1 = decodeKeys ms2) :
    structFields known deny raw1 = structFields known deny raw2 := by
  unfold structFields
  rw [h1, h2]
  simp only [h]

/-- hence requests, notifications, invalid-request probes and responses whose member names are
spelled differently are decoded to the same value -/
theorem decodeRequest_spelling (raw1 raw2 : Text) (ms1 ms2 : List (Text × Text))
    (h1 : members raw1 = some ms1) (h2 : members raw2 = some ms2) (h : decodeKeys ms1 = decodeKeys ms2) :
    decodeRequest raw1 = decodeRequest raw2 := by
  unfold decodeRequest
  rw [structFields_spelling _ _ raw1 raw2 ms1 ms2 h1 h2 h]

theorem decodeNotif_spelling (raw1 raw2 : Text) (ms1 ms2 : List (Text × Text))
    (h1 : members raw1 = some ms1) (h2 : members raw2 = some ms2) (h : decodeKeys ms1 = decodeKeys ms2) :
    decodeNotif raw1 = decodeNotif raw2 := by
  unfold decodeNotif
  rw [structFields_spelling _ _ raw1 raw2 ms1 ms2 h1 h2 h]

theorem decodeInvalidRequest_spelling (raw1 raw2 : Text) (ms1 ms2 : List (Text × Text))
    (h1 : members raw1 = some ms1) (h2 : members raw2 = some ms2) (h : decodeKeys ms1 = decodeKeys ms2) :
    decodeInvalidRequest raw1 = decodeInvalidRequest raw2 := by
  unfold decodeInvalidRequest
  rw [structFields_spelling _ _ raw1 raw2 ms1 ms2 h1 h2 h]

-- non-vacuity: `{"id":1}` and `{"id":1}` have the same decoded member list
example : (members [123, 34, 92, 117, 48, 48, 54, 57, 100, 34, 58, 49, 125]).bind decodeKeys =
          (members [123, 34, 105, 100, 34, 58, 49, 125]).bind decodeKeys := by decide

end Jrpc

namespace Jrpc.Srv
open Jrpc

/-- the server classifies a message (call / notification / invalid with id / garbage) by its
decoded member list only — alone or as a batch entry alike -/
theorem classify_spelling (raw1 raw2 : Text) (ms1 ms2 : List (Text × Text))
    (h1 : members raw1 = some ms1) (h2 : members raw2 = some ms2) (h : decodeKeys ms1 = decodeKeys ms2) :
    classify raw1 = classify raw2 := by
  unfold classify
  rw [decodeRequest_spelling raw1 raw2 ms1 ms2 h1 h2 h, decodeNotif_spelling raw1 raw2 ms1 ms2 h1 h2 h,
    decodeInvalidRequest_spelling raw1 raw2 ms1 ms2 h1 h2 h]

theorem classifyEntry_spelling (raw1 raw2 : Text) (ms1 ms2 : List (Text × Text))
    (h1 : members raw1 = some ms1) (h2 : members raw2 = some ms2) (h : decodeKeys ms1 = decodeKeys ms2)
    (hh : raw1.head? = raw2.head?) :
    classifyEntry raw1 = classifyEntry raw2 := by
  unfold classifyEntry
  rw [classify_spelling raw1 raw2 ms1 ms2 h1 h2 h, hh]

end Jrpc.Srv
