/-
  C15 (wire-type clauses) — requests, notifications, responses, error objects: parse ∘ serialise = id
  for every value of the id domain and every stable payload text; everything serialised is valid
  JSON-RPC 2.0; the response parser rejects duplicates and ignores unknown members.
  Well-formedness hypotheses are explicit: `Stable` payload texts (one complete JSON value — what
  `RawValue` holds), i32 error codes, optional raw members other than the literal `null` (an
  `Option<RawValue>` holding `null` reads back as absent — recorded in KNOWN_FINDINGS.txt).
-/
import JrpcVerif.Proofs.WireLemmas
namespace Jrpc


def Payload.WF : Payload → Prop
  | .result v => Stable v
  | .error e => e.WF

theorem members_some (kvs : List (Text × Text)) (hst : ∀ kv ∈ kvs, Stable kv.2) :
    ∃ ms, members (objectText kvs) = some ms ∧ decodeKeys ms = some kvs := by
  have hm := members_objectText kvs hst
  cases hmm : members (objectText kvs) with
  | none => rw [hmm] at hm; simp at hm
  | some ms => rw [hmm] at hm; exact ⟨ms, rfl, by simpa using hm⟩

theorem stable_encodeErrObj (e : ErrObj) (h : e.WF) : Stable (encodeErrObj e) := by
  obtain ⟨_, _, h3⟩ := h
  have := stable_object (errObjMembers e) (by
    intro kv hkv
    obtain ⟨code, msg, data⟩ := e
    cases data with
    | none =>
      simp [errObjMembers] at hkv
      rcases hkv with h | h <;> subst h
      · exact stable_encodeInt code
      · exact stable_encodeString msg
    | some d =>
      simp [errObjMembers] at hkv
      rcases hkv with h | h | h <;> subst h
      · exact stable_encodeInt code
      · exact stable_encodeString msg
      · exact (h3 d rfl).1)
  simpa [encodeErrObj, objectText] using this

theorem isTwoPointZero_enc : isTwoPointZero (encodeString tTwoZero) = true := by
  simp [isTwoPointZero, decodeString_encodeString]

theorem encodeString_ne_null (s : Text) : encodeString s ≠ tNull := by simp [encodeString, tNull]

/-- **C15.2** — responses: parse ∘ serialise = id, for every id of the id domain, with or without
the `jsonrpc` member, for result payloads (any stable JSON text) and error payloads alike -/
theorem c15_response_rt (r : Response) (hid : r.id.inDomain) (hp : r.payload.WF) :
    decodeResponse (encodeResponse r) = some r := by
  obtain ⟨j, id, payload⟩ := r
  have hidrt := c15_id_rt id hid
  have s1 := stable_encodeId id
  have s2 := stable_encodeString tTwoZero
  cases payload with
  | result v =>
    have s3 : Stable v := hp
    cases j with
    | true =>
      obtain ⟨ms, hmm, hdk⟩ := members_some [(kJsonrpc, encodeString tTwoZero), (kId, encodeId id), (kResult, v)]
        (by intro kv hkv; simp at hkv; rcases hkv with h | h | h <;> subst h <;> assumption)
      simp only [decodeResponse, respOfMembers, respCore, encodeResponse, responseMembers, ↓reduceIte, List.cons_append, List.nil_append, hmm, hdk]
      simp [countField, lookupField, kJsonrpc, kId, kResult, kError, hidrt, isTwoPointZero_enc, encodeString_ne_null]
    | false =>
      obtain ⟨ms, hmm, hdk⟩ := members_some [(kId, encodeId id), (kResult, v)]
        (by intro kv hkv; simp at hkv; rcases hkv with h | h <;> subst h <;> assumption)
      simp only [decodeResponse, respOfMembers, respCore, encodeResponse, responseMembers, Bool.false_eq_true, ↓reduceIte, List.nil_append, hmm, hdk]
      simp [countField, lookupField, kJsonrpc, kId, kResult, kError, hidrt]
  | error e =>
    have s3 := stable_encodeErrObj e hp
    have hert := c15_error_rt e hp
    cases j with
    | true =>
      obtain ⟨ms, hmm, hdk⟩ := members_some [(kJsonrpc, encodeString tTwoZero), (kId, encodeId id), (kError, encodeErrObj e)]
        (by intro kv hkv; simp at hkv; rcases hkv with h | h | h <;> subst h <;> assumption)
      simp only [decodeResponse, respOfMembers, respCore, encodeResponse, responseMembers, ↓reduceIte, List.cons_append, List.nil_append, hmm, hdk]
      simp [countField, lookupField, kJsonrpc, kId, kResult, kError, hidrt, isTwoPointZero_enc, encodeString_ne_null, hert]
    | false =>
      obtain ⟨ms, hmm, hdk⟩ := members_some [(kId, encodeId id), (kError, encodeErrObj e)]
        (by intro kv hkv; simp at hkv; rcases hkv with h | h <;> subst h <;> assumption)
      simp only [decodeResponse, respOfMembers, respCore, encodeResponse, responseMembers, Bool.false_eq_true, ↓reduceIte, List.nil_append, hmm, hdk]
      simp [countField, lookupField, kJsonrpc, kId, kResult, kError, hidrt, hert]

/-- **C15.3** — every response the library serialises is valid JSON-RPC 2.0: it parses back as a
response with `jsonrpc: "2.0"`, its id and exactly one of result/error (the payload type) -/
theorem c15_emitted_valid (id : Id) (p : Payload) (hid : id.inDomain) (hp : p.WF) :
    ∃ r, decodeResponse (encodeResponse ⟨true, id, p⟩) = some r ∧ r.jsonrpc = true ∧ r.id = id ∧ r.payload = p :=
  ⟨_, c15_response_rt ⟨true, id, p⟩ hid hp, rfl, rfl, rfl⟩

def optRawWF (o : Option Text) : Prop := ∀ p, o = some p → Stable p ∧ p ≠ tNull

/-- **C15.2** — requests -/
theorem c15_request_rt (r : Request) (hid : r.id.inDomain) (hp : optRawWF r.params) :
    decodeRequest (encodeRequest r) = some r := by
  obtain ⟨id, method, params⟩ := r
  have hidrt := c15_id_rt id hid
  have hmrt := decodeString_encodeString method
  have s1 := stable_encodeId id
  have s2 := stable_encodeString tTwoZero
  have s3 := stable_encodeString method
  cases params with
  | none =>
    obtain ⟨ms, hmm, hdk⟩ := members_some [(kJsonrpc, encodeString tTwoZero), (kId, encodeId id), (kMethod, encodeString method)]
      (by intro kv hkv; simp at hkv; rcases hkv with h | h | h <;> subst h <;> assumption)
    simp only [decodeRequest, encodeRequest, requestMembers, List.append_nil, structFields, hmm, hdk]
    simp [countField, lookupField, kJsonrpc, kId, kMethod, kParams, hidrt, hmrt, isTwoPointZero_enc, optRaw]
  | some p =>
    obtain ⟨s4, hnn⟩ := hp p rfl
    obtain ⟨ms, hmm, hdk⟩ := members_some [(kJsonrpc, encodeString tTwoZero), (kId, encodeId id), (kMethod, encodeString method), (kParams, p)]
      (by intro kv hkv; simp at hkv; rcases hkv with h | h | h | h <;> subst h <;> assumption)
    simp only [decodeRequest, encodeRequest, requestMembers, List.cons_append, List.nil_append, structFields, hmm, hdk]
    simp [countField, lookupField, kJsonrpc, kId, kMethod, kParams, hidrt, hmrt, isTwoPointZero_enc, optRaw, hnn]

/-- **C15.2** — notifications (absent params are written as `null` and read back as absent) -/
theorem c15_notification_rt (n : Notif) (hp : optRawWF n.params) :
    decodeNotif (encodeNotif n) = some n := by
  obtain ⟨method, params⟩ := n
  have hmrt := decodeString_encodeString method
  have s2 := stable_encodeString tTwoZero
  have s3 := stable_encodeString method
  cases params with
  | none =>
    have s4 := stable_null
    obtain ⟨ms, hmm, hdk⟩ := members_some [(kJsonrpc, encodeString tTwoZero), (kMethod, encodeString method), (kParams, tNull)]
      (by intro kv hkv; simp at hkv; rcases hkv with h | h | h <;> subst h <;> assumption)
    simp only [decodeNotif, encodeNotif, structFields, hmm, hdk]
    simp [countField, lookupField, kJsonrpc, kMethod, kParams, hmrt, isTwoPointZero_enc, optRaw]
  | some p =>
    obtain ⟨s4, hnn⟩ := hp p rfl
    obtain ⟨ms, hmm, hdk⟩ := members_some [(kJsonrpc, encodeString tTwoZero), (kMethod, encodeString method), (kParams, p)]
      (by intro kv hkv; simp at hkv; rcases hkv with h | h | h <;> subst h <;> assumption)
    simp only [decodeNotif, encodeNotif, structFields, hmm, hdk]
    simp [countField, lookupField, kJsonrpc, kMethod, kParams, hmrt, isTwoPointZero_enc, optRaw, hnn]


/-! ### the response parser -/

/-- a duplicate of any of the four known names rejects -/
theorem c15_parser_rejects_duplicates (dms : List (Text × Text)) (k : Text)
    (hk : k ∈ [kJsonrpc, kResult, kError, kId]) (hd : countField k dms > 1) : respOfMembers dms = none := by
  unfold respOfMembers respCore
  simp only [List.mem_cons, List.mem_nil_iff, or_false] at hk
  rcases hk with h | h | h | h <;> subst h <;> simp [hd]

/-- an id is required, and exactly one of result / error -/
theorem c15_parser_requires (dms : List (Text × Text)) :
    (lookupField kId dms = none → respOfMembers dms = none) ∧
    (lookupField kResult dms = none → lookupField kError dms = none → respOfMembers dms = none) ∧
    ((lookupField kResult dms).isSome → (lookupField kError dms).isSome → respOfMembers dms = none) := by
  refine ⟨?_, ?_, ?_⟩
  · intro h
    unfold respOfMembers respCore
    split
    · rfl
    · simp only [h]; split <;> simp_all
  · intro h1 h2
    unfold respOfMembers respCore
    split
    · rfl
    · simp only [h1, h2]
      split
      · split <;> rfl
      · rfl
  · intro h1 h2
    unfold respOfMembers respCore
    split
    · rfl
    · cases hr : lookupField kResult dms with
      | none => simp [hr] at h1
      | some rr =>
        cases he : lookupField kError dms with
        | none => simp [he] at h2
        | some er =>
          simp only []
          split
          · split <;> rfl
          · rfl

theorem lookupField_insert_unknown (k u v : Text) (hne : k ≠ u) (pre post : List (Text × Text)) :
    lookupField k (pre ++ (u, v) :: post) = lookupField k (pre ++ post) ∧
    countField k (pre ++ (u, v) :: post) = countField k (pre ++ post) := by
  induction pre with
  | nil => simp [lookupField, countField, hne]
  | cons kv pre ih =>
    obtain ⟨k', v'⟩ := kv
    simp [lookupField, countField, ih.1, ih.2]

/-- unknown members are ignored: inserting a member whose name is none of the four known names,
anywhere, does not change what the parser returns -/
theorem c15_parser_ignores_unknown (pre post : List (Text × Text)) (u v : Text)
    (hu : u ∉ [kJsonrpc, kResult, kError, kId]) :
    respOfMembers (pre ++ (u, v) :: post) = respOfMembers (pre ++ post) := by
  have h1 : kJsonrpc ≠ u := by intro h; subst h; simp at hu
  have h2 : kResult ≠ u := by intro h; subst h; simp at hu
  have h3 : kError ≠ u := by intro h; subst h; simp at hu
  have h4 : kId ≠ u := by intro h; subst h; simp at hu
  unfold respOfMembers
  rw [(lookupField_insert_unknown kJsonrpc u v h1 pre post).1, (lookupField_insert_unknown kJsonrpc u v h1 pre post).2,
    (lookupField_insert_unknown kResult u v h2 pre post).1, (lookupField_insert_unknown kResult u v h2 pre post).2,
    (lookupField_insert_unknown kError u v h3 pre post).1, (lookupField_insert_unknown kError u v h3 pre post).2,
    (lookupField_insert_unknown kId u v h4 pre post).1, (lookupField_insert_unknown kId u v h4 pre post).2]

/-- the `jsonrpc` member may be absent, `null` or `"2.0"` — anything else rejects -/
theorem c15_parser_jsonrpc (cr ce ci : Nat) (r e i : Option Text) (jr : Text)
    (hj : jr ≠ tNull) (h2 : isTwoPointZero jr = false) : respCore 1 cr ce ci (some jr) r e i = none := by
  unfold respCore
  split
  · rfl
  · simp [hj, h2]

-- non-vacuity
example : Payload.WF (.result (encodeNat 7)) := stable_encodeNat 7
example : (⟨-32000, [109], none⟩ : ErrObj).WF := ⟨by decide, by decide, by intro d h; cases h⟩
example : Id.inDomain (.str [34, 92]) := trivial

end Jrpc
