/-
  C16 — params decoding agrees with a plain JSON parse and fails only with -32602.

  `elements` (Model/JsonText.lean) is the declarative "plain JSON parse" of an array text into its
  raw element slices; `nextInner`/`seqNext`/`seqOptNext` (Model/ParamsSeq.lean) transcribe the
  byte-stepping reader of types/src/params.rs.  The only error value the reader's result type has
  is `Got.invalidParams` (-32602) and no `panic` outcome exists in the model (the correspondence
  check runs the real reader under `catch_unwind`).
-/
import JrpcVerif.Proofs.ParamsLemmas
import JrpcVerif.Proofs.LastCharLemmas
namespace Jrpc

/-- params text as jsonrpsee holds it: already trimmed (`RawValue` slices carry no outer whitespace) -/
theorem c16_new_of_trimmed (t : Text) (h : trim t = t) : Params.new (some t) = ⟨some t⟩ := by
  simp [Params.new, h]

/-- … and every raw value slice (what a `RawValue` holds) is already trimmed: `Params::new` keeps it -/
theorem c16_new_of_slice (t : Text) (h : Stable t) : Params.new (some t) = ⟨some t⟩ :=
  c16_new_of_trimmed t (trim_of_stable t h)

/-- a JSON array text (starting at its `[`) puts the reader at its first element, or — when the
array is empty, interior whitespace or not — in an exhausted state -/
theorem c16_start (r0 : Text) (es : List Text) (h : elements (91 :: r0) = some es) :
    (es = [] ∧ Exhausted (Params.sequence ⟨some (91 :: r0)⟩)) ∨
    (∃ rest, At (Params.sequence ⟨some (91 :: r0)⟩) es rest) := by
  unfold elements elementsF at h
  have h91 : skipWs (91 :: r0) = 91 :: r0 := skipWs_of_head 91 r0 (by decide)
  rw [h91] at h
  simp only [bne_self_eq_false, Bool.false_eq_true, ↓reduceIte] at h
  split at h
  · simp at h
  · rename_i d r1 hws
    split at h
    · -- `[` ws `]`
      rename_i hd
      simp at hd; subst hd
      left
      have hes : es = [] := by
        split at h <;> simp at h
        exact h
      refine ⟨hes, ?_⟩
      simp only [Params.sequence]
      split
      · exact exhausted_nil
      · intro α δ
        have hts : trimStart r0 = 93 :: r1 := trimStart_eq_of_skipWs _ _ _ hws (by decide)
        simp [nextInner, hts]
    · rename_i hd
      simp at hd
      split at h
      · simp at h
      · rename_i es' rest hloop
        have hes : es' = es := by
          split at h <;> simp at h
          exact h
        subst hes
        right
        refine ⟨rest, ?_⟩
        -- d starts a value
        have hstart : isRustWs d = false ∧ d ≠ 93 ∧ d ≠ 44 := by
          cases hf : fuelFor (91 :: r0) with
          | zero => simp [fuelFor] at hf
          | succ n =>
            rw [hf] at hloop
            rw [elemsLoop] at hloop
            unfold splitValue at hloop
            split at hloop
            · simp at hloop
            · rename_i e r hsv
              split at hsv
              · simp at hsv
              · rename_i r' hv
                exact valueStart_not_rustWs d (skipValue_head _ _ _ _ hv)
        have hts : trimStart r0 = d :: r1 := trimStart_eq_of_skipWs _ _ _ hws hstart.1
        have hseq : Params.sequence ⟨some (91 :: r0)⟩ = 91 :: r0 := by
          simp only [Params.sequence]
          split
          · rename_i heq
            simp at heq
            subst heq
            simp [skipWs, isJsonWs] at hws
            exact absurd hws.1.symm hd
          · rfl
        rw [hseq]
        refine ⟨_, _, d :: r1, r0, hloop, hws, ?_⟩
        intro α δ
        simp [nextInner, hts, hd]

/-- **C16.1** — reading a JSON array element by element yields exactly the elements a plain parse
yields, in order, and then the reader is exhausted. -/
theorem c16_sequence_eq_elements (r0 : Text) (es : List Text) (h : elements (91 :: r0) = some es) :
    ∃ s1, readRaw es.length (Params.sequence ⟨some (91 :: r0)⟩) = (es.map Got.val, s1) ∧ Exhausted s1 := by
  rcases c16_start r0 es h with ⟨hes, hex⟩ | ⟨rest, hat⟩
  · subst hes
    exact ⟨_, by simp [readRaw], hex⟩
  · exact ⟨93 :: rest, readRaw_at es _ rest hat, exhausted_close rest⟩

/-- **C16.1/2** — in an exhausted state `next` reports invalid params ("no more params"),
`optional_next` reports absent, and the state stays exhausted: for ever after. -/
theorem c16_exhausted_forever (s : Text) (h : Exhausted s) {α : Type} (δ : Text → Option α) :
    seqNext δ s = (.invalidParams, []) ∧ seqOptNext δ s = (.absent, []) ∧ Exhausted [] := by
  refine ⟨?_, ?_, exhausted_nil⟩
  · simp [seqNext, h α δ]
  · simp [seqOptNext, h (Option α) (optDec δ)]

/-- **C16.1 typed / C16.4 no wrong position** — a typed read at a state positioned at element `e`
(`es'` still to come) returns the decoder's verdict on *that* element: the value, or -32602 with
the reader emptied; it can never return a later or earlier element. -/
theorem c16_typed_read (s e : Text) (es' : List Text) (rest : Text) (h : At s (e :: es') rest)
    {α : Type} (δ : Text → Option α) :
    (∀ v, δ e = some v → ∃ s', seqNext δ s = (.val v, s') ∧ ((es' = [] ∧ Exhausted s') ∨ At s' es' rest)) ∧
    (δ e = none → seqNext δ s = (.invalidParams, [])) := by
  obtain ⟨s', hstep, hnext⟩ := at_step s e es' rest h
  have h1 := hstep α δ
  refine ⟨?_, ?_⟩
  · intro v hv
    rw [hv] at h1
    refine ⟨s', by simp [seqNext, h1], ?_⟩
    rcases hnext with ⟨hnil, hs'⟩ | hat
    · left; exact ⟨hnil, hs' ▸ exhausted_close rest⟩
    · right; exact hat
  · intro hn
    rw [hn] at h1
    simp [seqNext, h1]

/-- **C16.2** — `optional_next` at a `null` element yields absent and moves on; at any other
element it behaves as `next`. -/
theorem c16_optional (s e : Text) (es' : List Text) (rest : Text) (h : At s (e :: es') rest)
    {α : Type} (δ : Text → Option α) :
    (e = tNull → ∃ s', seqOptNext δ s = (.absent, s') ∧ ((es' = [] ∧ Exhausted s') ∨ At s' es' rest)) ∧
    (e ≠ tNull → ∀ v, δ e = some v → ∃ s', seqOptNext δ s = (.val v, s')) ∧
    (e ≠ tNull → δ e = none → seqOptNext δ s = (.invalidParams, [])) := by
  obtain ⟨s', hstep, hnext⟩ := at_step s e es' rest h
  have h1 := hstep (Option α) (optDec δ)
  refine ⟨?_, ?_, ?_⟩
  · intro he
    have : optDec δ e = some none := by simp [optDec, he]
    rw [this] at h1
    refine ⟨s', by simp [seqOptNext, h1], ?_⟩
    rcases hnext with ⟨hnil, hs'⟩ | hat
    · left; exact ⟨hnil, hs' ▸ exhausted_close rest⟩
    · right; exact hat
  · intro he v hv
    have : optDec δ e = some (some v) := by simp [optDec, he, hv]
    rw [this] at h1
    exact ⟨s', by simp [seqOptNext, h1]⟩
  · intro he hn
    have : optDec δ e = none := by simp [optDec, he, hn]
    rw [this] at h1
    simp [seqOptNext, h1]

/-- states in which no read can ever return a value again -/
def Dead (s : Text) : Prop := s = [] ∨ ∃ c r, s = c :: r ∧ c ≠ 93 ∧ c ≠ 91 ∧ c ≠ 44

theorem parseAt_err_state {α : Type} (δ : Text → Option α) (s json s' : Text)
    (h : parseAt δ s json = (.err, s')) : s' = [] := by
  unfold parseAt at h
  split at h
  · simp at h
  · split at h
    · simp at h; exact h
    · split at h
      · simp at h; exact h
      · split at h
        · simp at h; exact h
        · simp at h

/-- **C16.4** — after a failed read the reader is in a dead state … -/
theorem c16_error_kills {α : Type} (δ : Text → Option α) (s s' : Text)
    (h : nextInner δ s = (.err, s')) : Dead s' := by
  unfold nextInner at h
  split at h
  · simp at h
  · rename_i c r
    split at h
    · simp at h
    · rename_i h93
      split at h
      · split at h
        · split at h
          · simp at h
          · left; exact parseAt_err_state _ _ _ _ h
        · left; exact parseAt_err_state _ _ _ _ h
      · rename_i h91
        split at h
        · left; exact parseAt_err_state _ _ _ _ h
        · rename_i h44
          simp at h
          right
          refine ⟨c, r, h.symm, ?_, ?_, ?_⟩ <;> simp_all

/-- … and from a dead state every later read (of any type) yields an error or "no element",
never a value, and the state stays dead. -/
theorem c16_dead_forever {α : Type} (δ : Text → Option α) (s : Text) (h : Dead s) :
    (∀ v s', nextInner δ s ≠ (.ok v, s')) ∧ Dead (nextInner δ s).2 := by
  rcases h with h | ⟨c, r, hs, h93, h91, h44⟩
  · subst h
    exact ⟨by intro v s'; simp [nextInner], Or.inl rfl⟩
  · subst hs
    have : nextInner δ (c :: r) = (.err, c :: r) := by simp [nextInner, h93, h91, h44]
    rw [this]
    exact ⟨by intro v s'; simp, Or.inr ⟨c, r, rfl, h93, h91, h44⟩⟩

/-- **C16.3** — absent params behave as `null` for `parse` and as the empty array for `sequence` -/
theorem c16_absent {α : Type} (δ : Text → Option α) :
    Params.parse δ (Params.new none) = Params.parse δ ⟨some tNull⟩ ∧
    Exhausted (Params.new none).sequence ∧
    (Params.new none).sequence = (Params.new (some [91, 93])).sequence := by
  refine ⟨by simp [Params.parse, Params.new], ?_, by decide⟩
  simp [Params.new, Params.sequence]; exact exhausted_nil

/-- **C16.3** — `one` returns the decoder applied to the single element of a one-element array,
and is an error for every other array length -/
theorem c16_one {α : Type} (δ : Text → Option α) (t : Text) (es : List Text) (h : elements t = some es) :
    Params.one δ ⟨some t⟩ = (match es with
      | [e] => (match δ e with | some a => .val a | none => .invalidParams)
      | _ => .invalidParams) := by
  simp only [Params.one, h]
  cases es with
  | nil => rfl
  | cons e es' => cases es' <;> rfl

-- non-vacuity: a concrete array with interior whitespace meets the hypotheses
-- `[1, "a" ,null]`
example : elements [91, 49, 44, 32, 34, 97, 34, 32, 44, 110, 117, 108, 108, 93] = some [[49], [34, 97, 34], [110, 117, 108, 108]] := by decide
example : elements [91, 32, 93] = some [] := by decide
example : Dead [120, 93] := Or.inr ⟨120, [93], rfl, by decide, by decide, by decide⟩

end Jrpc
