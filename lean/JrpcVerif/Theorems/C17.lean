/-
  C17 — generated APIs: client stub calls reach the server method with equal arguments.
  `clientEncode` / `serverDecode` (Model/MacroApi.lean) transcribe what the `#[rpc]` macro generates;
  they are built from the C20 builders and the C16 reader, so these theorems rest on `c20_array`,
  `c20_object`, `c16_start`, `at_step`.  `ArgsOk` is the well-formedness of an argument vector
  (Proofs/MacroLemmas.lean): each argument text is one complete JSON value its parameter type accepts,
  `None` only for `Option` parameters, a present optional argument is not `null`.
-/
import JrpcVerif.Proofs.MacroLemmas
namespace Jrpc.Macro
open Jrpc

/-- **C17.1 (positional)** — for every method descriptor and every well-formed argument vector: the
arguments the server trait method receives are exactly the arguments the client stub was called
with (`None` for `null`). -/
theorem c17_roundtrip_array (d : MethodDesc) (args : List (Option Text))
    (hk : d.kind = .array) (hok : ArgsOk d.params args) :
    serverDecode d (clientEncode d args) = some args := by
  have hlen := argsOk_length _ _ hok
  by_cases hemp : d.params = []
  · have : args = [] := by cases args <;> simp_all
    subst this
    simp [serverDecode, hemp]
  · have hne : args ≠ [] := by
      intro h; subst h; cases hp : d.params <;> simp_all
    have hpe : d.params.isEmpty = false := by cases hp : d.params <;> simp_all
    have hops : (args.map (fun a => Ser.ok (argText a))) ≠ [] := by simpa using hne
    obtain ⟨hb, hs⟩ := insertAll_positional _ hops
    rw [okTexts_map] at hb
    have hbuild := build_of_bytes _ 91 (args.map argText) hb (by decide)
    rw [hs] at hbuild
    have hst := stable_all _ _ hok
    have hel := elements_join (args.map argText) hst
    have henc : clientEncode d args = some (91 :: (joinElems (args.map argText) ++ [93])) := by
      simp only [clientEncode, hpe, hk]
      simpa using hbuild
    have htrim := trim_bracketed 91 93 (joinElems (args.map argText)) (by decide) (by decide)
    have hnew : Params.new (some (91 :: (joinElems (args.map argText) ++ [93]))) =
        ⟨some (91 :: (joinElems (args.map argText) ++ [93]))⟩ := by simp [Params.new, htrim]
    have hobj : (⟨some (91 :: (joinElems (args.map argText) ++ [93]))⟩ : Params).isObject = false := by
      simp [Params.isObject]
    have hel' : elements (91 :: (joinElems (args.map argText) ++ [93])) = some (args.map argText) := by
      simpa using hel
    rcases c16_start _ _ hel' with ⟨hnil, _⟩ | ⟨rest, hat⟩
    · exact absurd (by simpa using hnil) hne
    · simp only [serverDecode, hpe, henc, hnew, hobj]
      exact decodeSeq_at d.params args _ rest hok hne hat


theorem okPairs_named (ps : List ParamDesc) (as : List (Option Text)) :
    okPairs ((ps.zip as).map (fun pa => (pa.1.name, Ser.ok (argText pa.2)))) = namedMembers ps as := by
  induction ps generalizing as with
  | nil => simp [okPairs, namedMembers]
  | cons p ps ih =>
    cases as with
    | nil => simp [okPairs, namedMembers]
    | cons a as =>
      have := ih as
      simp only [namedMembers] at this
      simp [okPairs, namedMembers, this]

theorem stable_named (ps : List ParamDesc) (as : List (Option Text)) (h : ArgsOk ps as) :
    ∀ kv ∈ namedMembers ps as, Stable kv.2 := by
  induction ps generalizing as with
  | nil => cases as <;> simp [namedMembers]
  | cons p ps ih =>
    cases as with
    | nil => simp [namedMembers]
    | cons a as =>
      simp only [ArgsOk] at h
      intro kv hkv
      simp only [namedMembers, List.zip_cons_cons, List.map_cons, List.mem_cons] at hkv
      rcases hkv with hkv | hkv
      · subst hkv; exact stable_argText p a h.1
      · exact ih as h.2 kv (by simpa [namedMembers] using hkv)

/-- **C17.1 (by name)** — the same under `param_kind = map`, provided no parameter's wire name is an
accepted spelling (rename / snake_case / camelCase alias) of another parameter. -/
theorem c17_roundtrip_map (d : MethodDesc) (args : List (Option Text))
    (hk : d.kind = .map) (hok : ArgsOk d.params args) (hnc : List.Pairwise NoClash d.params) :
    serverDecode d (clientEncode d args) = some args := by
  have hlen := argsOk_length _ _ hok
  by_cases hemp : d.params = []
  · have : args = [] := by cases args <;> simp_all
    subst this
    simp [serverDecode, hemp]
  · have hpe : d.params.isEmpty = false := by cases hp : d.params <;> simp_all
    have hne : args ≠ [] := by intro h; subst h; cases hp : d.params <;> simp_all
    have hops : ((d.params.zip args).map (fun pa => (pa.1.name, Ser.ok (argText pa.2)))) ≠ [] := by
      cases hp : d.params with
      | nil => exact absurd hp hemp
      | cons p ps => cases args with
        | nil => exact absurd rfl hne
        | cons a as => simp
    obtain ⟨hb, hs⟩ := insertAllNamed_named _ hops
    rw [okPairs_named] at hb
    have hbuild := build_of_bytes _ 123 ((namedMembers d.params args).map memberText) hb (by decide)
    rw [hs, joinElems_memberText] at hbuild
    have hmem := members_join (namedMembers d.params args) (stable_named _ _ hok)
    have henc : clientEncode d args = some (123 :: (joinMembers (namedMembers d.params args) ++ [125])) := by
      simp only [clientEncode, hpe, hk]
      simpa using hbuild
    have htrim := trim_bracketed 123 125 (joinMembers (namedMembers d.params args)) (by decide) (by decide)
    have hnew : Params.new (some (123 :: (joinMembers (namedMembers d.params args) ++ [125]))) =
        ⟨some (123 :: (joinMembers (namedMembers d.params args) ++ [125]))⟩ := by simp [Params.new, htrim]
    have hobj : (⟨some (123 :: (joinMembers (namedMembers d.params args) ++ [125]))⟩ : Params).isObject = true := by
      simp [Params.isObject]
    have hmem' : members (123 :: (joinMembers (namedMembers d.params args) ++ [125])) = some (rawKeys (namedMembers d.params args)) := by
      simpa using hmem
    simp only [serverDecode, hpe, henc, hnew, hobj, hmem', Option.bind, decodeKeys_rawKeys]
    have := decodeByName_full d.params args [] [] rfl hok (by simpa using hnc)
    simpa using this

/-- **C17.2 (omitted tail)** — a positional params array that supplies only a prefix of the arguments
decodes to that prefix followed by `None`s when every omitted parameter is optional, and is
invalid params (-32602) as soon as an omitted parameter is required. -/
theorem c17_omitted_tail (d : MethodDesc) (given : List (Option Text)) (ps1 ps2 : List ParamDesc) (r0 : Text)
    (hd : d.params = ps1 ++ ps2) (hok : ArgsOk ps1 given) (hne : given ≠ [])
    (htrim : trim (91 :: r0) = 91 :: r0)
    (hel : elements (91 :: r0) = some (given.map argText)) :
    serverDecode d (some (91 :: r0)) =
      if allOptional ps2 then some (given ++ ps2.map (fun _ => none)) else none := by
  have hpe : d.params.isEmpty = false := by
    rw [hd]; cases ps1 with
    | nil => cases given <;> simp_all [ArgsOk]
    | cons p ps => simp
  have hnew : Params.new (some (91 :: r0)) = ⟨some (91 :: r0)⟩ := by simp [Params.new, htrim]
  have hobj : (⟨some (91 :: r0)⟩ : Params).isObject = false := by simp [Params.isObject]
  rcases c16_start _ _ hel with ⟨hnil, _⟩ | ⟨rest, hat⟩
  · exact absurd (by simpa using hnil) hne
  · rw [hd] at hpe
    simp only [serverDecode, hnew, hobj, hd, hpe]
    exact decodeSeq_prefix ps1 given _ rest ps2 hok hne hat

/-- **C17.2** — no params at all (or `[]`): every parameter optional ⇒ all `None`; else -32602 -/
theorem c17_no_params (d : MethodDesc) (h : d.params ≠ []) :
    serverDecode d none = (if allOptional d.params then some (d.params.map (fun _ => none)) else none) := by
  have hpe : d.params.isEmpty = false := by cases hp : d.params <;> simp_all
  simp only [serverDecode, hpe, Params.new, Params.isObject, Params.sequence]
  exact decodeSeq_exhausted d.params [] exhausted_nil

/-- **C17.3** — names: the client calls `namespace ++ separator ++ name`; that is the name `into_rpc`
registers (aliases are registered verbatim, without the namespace) -/
theorem c17_names (ns sep name : Text) : rpcName (some (ns, sep)) name = ns ++ sep ++ name ∧ rpcName none name = name :=
  ⟨rfl, rfl⟩

/-- a single digit is a stable value (used by the non-vacuity example) -/
theorem stable_seven : Stable [55] := by
  refine ⟨1, ?_⟩
  intro r hr
  cases r with
  | nil => decide
  | cons c r =>
    simp only [Delim, isJsonWs] at hr
    have hc : c = 44 ∨ c = 93 ∨ c = 125 ∨ c = 32 ∨ c = 9 ∨ c = 10 ∨ c = 13 := by
      rcases hr with h | h | h | h
      · exact Or.inl h
      · exact Or.inr (Or.inl h)
      · exact Or.inr (Or.inr (Or.inl h))
      · simp at h; omega
    rcases hc with h | h | h | h | h | h | h <;> subst h <;>
      simp [skipValue, isDigit, skipNumber, skipInteger, skipDigits, skipFracExp, skipExpOpt]

-- non-vacuity: a descriptor with an optional tail and a concrete well-formed argument vector
example : ArgsOk [⟨[97], [97], [97], false, 1⟩, ⟨[98], [98], [98], true, 2⟩] [some [55], none] :=
  ⟨⟨stable_seven, by decide, by simp⟩, by simp [ArgOk], trivial⟩
example : List.Pairwise NoClash [⟨[97], [97], [97], false, 1⟩, ⟨[98], [98], [98], true, 2⟩] := by
  simp [NoClash, spellings]

end Jrpc.Macro
