/-
  C17 — names, aliases and unsubscribe aliases resolve to the handler of the item they belong to.
-/
import JrpcVerif.Model.MacroNames
namespace Jrpc.Macro
open Jrpc

theorem lookup_of_mem_nodup {β : Type} : ∀ (l : List (Text × β)) (k : Text) (v : β),
    (l.map Prod.fst).Nodup → (k, v) ∈ l → l.lookup k = some v := by
  intro l
  induction l with
  | nil => intro k v _ h; cases h
  | cons p l ih =>
    intro k v hnd hm
    obtain ⟨k', v'⟩ := p
    simp only [List.map_cons, List.nodup_cons] at hnd
    rcases List.mem_cons.mp hm with h | h
    · cases h
      simp [List.lookup]
    · have hne : k ≠ k' := by
        intro he
        subst he
        exact hnd.1 (List.mem_map.mpr ⟨(k, v), h, rfl⟩)
      have : (k == k') = false := by simpa using hne
      simp only [List.lookup, this]
      exact ih k v hnd.2 h

theorem lookup_some_mem {β : Type} : ∀ (l : List (Text × β)) (k : Text) (v : β),
    l.lookup k = some v → (k, v) ∈ l := by
  intro l
  induction l with
  | nil => intro k v h; simp [List.lookup] at h
  | cons p l ih =>
    intro k v h
    obtain ⟨k', v'⟩ := p
    by_cases he : k = k'
    · subst he
      simp [List.lookup] at h
      subst h
      exact List.mem_cons_self ..
    · have : (k == k') = false := by simpa using he
      simp only [List.lookup, this] at h
      exact List.mem_cons_of_mem _ (ih k v h)

/-- **C17.4 (methods)** — provided the registered names are distinct (otherwise `into_rpc` fails),
the namespaced name and every alias of a method reach that method's handler. -/
theorem c17_method_names (ns : Option (Text × Text)) (d : ItemDesc) (hs : d.isSub = false)
    (hnd : (wireNames ns d).Nodup) :
    resolve ns d (rpcName ns d.name) = some .method ∧ ∀ a ∈ d.aliases, resolve ns d a = some .method := by
  unfold resolve
  unfold wireNames at hnd
  refine ⟨?_, ?_⟩
  · apply lookup_of_mem_nodup _ _ _ hnd
    simp [registrations, hs]
  · intro a ha
    apply lookup_of_mem_nodup _ _ _ hnd
    simp only [registrations, hs]
    exact List.mem_cons_of_mem _ (List.mem_map.mpr ⟨a, ha, rfl⟩)

/-- **C17.4 (subscriptions)** — the namespaced subscribe name and every alias reach the subscribe
handler; the namespaced unsubscribe name and every unsubscribe alias reach the unsubscribe handler
(never the subscribe handler). -/
theorem c17_subscription_names (ns : Option (Text × Text)) (d : ItemDesc) (hs : d.isSub = true)
    (hnd : (wireNames ns d).Nodup) :
    resolve ns d (rpcName ns d.name) = some .subscribe ∧
    (∀ a ∈ d.aliases, resolve ns d a = some .subscribe) ∧
    resolve ns d (rpcName ns d.unsub) = some .unsubscribe ∧
    (∀ a ∈ d.unsubAliases, resolve ns d a = some .unsubscribe) := by
  unfold resolve
  unfold wireNames at hnd
  refine ⟨?_, ?_, ?_, ?_⟩
  · apply lookup_of_mem_nodup _ _ _ hnd
    simp [registrations, hs]
  · intro a ha
    apply lookup_of_mem_nodup _ _ _ hnd
    simp only [registrations, hs, if_true]
    refine List.mem_cons_of_mem _ (List.mem_cons_of_mem _ (List.mem_append_left _ ?_))
    exact List.mem_map.mpr ⟨a, ha, rfl⟩
  · apply lookup_of_mem_nodup _ _ _ hnd
    simp [registrations, hs]
  · intro a ha
    apply lookup_of_mem_nodup _ _ _ hnd
    simp only [registrations, hs, if_true]
    refine List.mem_cons_of_mem _ (List.mem_cons_of_mem _ (List.mem_append_right _ ?_))
    exact List.mem_map.mpr ⟨a, ha, rfl⟩

/-- nothing else is registered: a name that resolves is one of the item's wire names -/
theorem c17_names_complete (ns : Option (Text × Text)) (d : ItemDesc) (n : Text) (t : Target)
    (h : resolve ns d n = some t) : n ∈ wireNames ns d := by
  unfold resolve at h
  unfold wireNames
  exact List.mem_map.mpr ⟨(n, t), lookup_some_mem _ _ _ h, rfl⟩

-- non-vacuity: a subscription with an alias and two unsubscribe aliases
example :
    let d : ItemDesc := ⟨true, [115], [[97]], [117], [[98], [99]]⟩
    (wireNames (some ([110], [46])) d).Nodup ∧ resolve (some ([110], [46])) d [98] = some .unsubscribe := by decide

end Jrpc.Macro
