/-
  C18 — client: bookkeeping returns to empty.

  `Quiescent st trace` is a predicate on the **ghost history** only (Proofs/ClientQuiesceLemmas.lean):
  every front-end operation issued so far has been finished exactly once in the effect trace
  (`complete`, or `dropped` when its future had been abandoned), and every stream ever opened is over
  (`Ended`: closed by the server or unsubscribed / dropped / lag-closed, and an unsubscribe once sent
  has been acknowledged; a method handler removed).  It does not mention the four tables.
-/
import JrpcVerif.Proofs.ClientHandlerLemmas
namespace Jrpc.Client
open Jrpc

/-! ### C18.1 — at quiescence nothing is left -/

/-- full statement: at quiescence all four tables are empty -/
def c18_empty_at_quiescence_statement : Prop :=
  ∀ (cap : Nat) (strIds : Bool) (steps : List Step),
    Quiescent (run (St.init cap strIds) steps).1 (run (St.init cap strIds) steps).2 →
    (run (St.init cap strIds) steps).1.core.mgr.requests = [] ∧ (run (St.init cap strIds) steps).1.core.mgr.subs = [] ∧
    (run (St.init cap strIds) steps).1.core.mgr.batches = [] ∧ (run (St.init cap strIds) steps).1.core.mgr.handlers = []

theorem ended_sub_false (x : Chan) (ho : isSubOwner x.owner = true) (h1 : x.closedByServer = false)
    (h2 : x.unsubscribed = false) (he : Ended x) : False := by
  obtain ⟨_, he⟩ := he
  cases hx : x.owner with
  | sub s => simp [hx, h1, h2] at he
  | method m => simp [hx, isSubOwner] at ho

theorem ended_unacked_false (x : Chan) (h1 : x.unsubscribed = true) (h2 : x.acked = false) (he : Ended x) : False := by
  have := he.1 h1
  rw [h2] at this; simp at this

/-- **full strength**: for every history of the client — any sequence of atomic steps from a fresh
client — at quiescence all four tables are empty -/
theorem c18_empty_at_quiescence : c18_empty_at_quiescence_statement := by
  intro cap strIds steps hq
  have hr : Reachable (run (St.init cap strIds) steps).1 := ⟨cap, strIds, steps, rfl⟩
  have hlive := quiescent_no_live cap strIds steps hq
  generalize (run (St.init cap strIds) steps).1 = st at *
  have hku := sku_reachable st hr
  have ht := (stinv_reachable st hr).1
  have hrt := (sinv_reachable st hr).routes
  have hnoTicket : ∀ p ∈ st.core.mgr.requests, ∀ k, kindOp p.2 = some k → False := by
    intro p hp k hk
    have := reqCount_pos_of_mem k _ p hp hk
    have h0 := hlive k
    simp only [liveCount, coreCount] at h0; omega
  have hreq : st.core.mgr.requests = [] := by
    cases hreqs : st.core.mgr.requests with
    | nil => rfl
    | cons e rest =>
      exfalso
      have hp : e ∈ st.core.mgr.requests := by rw [hreqs]; exact List.mem_cons_self
      obtain ⟨k, kd⟩ := e
      have ha := mem_alookup_of_nodup k kd _ hp hku.requests
      cases kd with
      | pendingCall t =>
        cases t with
        | some t => exact hnoTicket _ hp t.op rfl
        | none =>
          rcases ht.slot k ha with ⟨sid, t, um, b⟩ | ⟨sid, c, um, b⟩ | ⟨c, x, c1, c2, c3, _⟩
          · exact hnoTicket _ (alookup_mem _ _ _ b) t.op rfl
          · obtain ⟨x, hx, _, h3, h4, _, h6, _⟩ := ht.live.sub sid k c um b
            exact ended_sub_false x h6 h4 h3 (hq.2 x (List.mem_of_getElem? hx))
          · exact ended_unacked_false x c2 c3 (hq.2 x (List.mem_of_getElem? c1))
      | pendingSub uid t um => exact hnoTicket _ hp t.op rfl
      | sub uid c um =>
        obtain ⟨x, hx, _, h3, h4, _, h6, _⟩ := ht.live.sub k uid c um ha
        exact ended_sub_false x h6 h4 h3 (hq.2 x (List.mem_of_getElem? hx))
      | pendingUnsub rid c =>
        obtain ⟨x, hx, h2, h3, _⟩ := ht.unsub.unsub k rid c ha
        exact ended_unacked_false x h2 h3 (hq.2 x (List.mem_of_getElem? hx))
  refine ⟨hreq, ?_, ?_, ?_⟩
  · cases hs : st.core.mgr.subs with
    | nil => rfl
    | cons e rest =>
      exfalso
      obtain ⟨s, rid⟩ := e
      have ha : alookup s st.core.mgr.subs = some rid := by rw [hs]; exact alookup_cons_self _ _ _
      obtain ⟨uid, c, um, h1, _⟩ := hrt.subs s rid ha
      rw [hreq] at h1; simp [alookup] at h1
  · cases hb : st.core.mgr.batches with
    | nil => rfl
    | cons e rest =>
      exfalso
      have := batCount_pos_of_mem st.core.mgr.batches e (by rw [hb]; exact List.mem_cons_self)
      have h0 := hlive e.2.op
      simp only [liveCount, coreCount] at h0; omega
  · cases hh : st.core.mgr.handlers with
    | nil => rfl
    | cons e rest =>
      exfalso
      obtain ⟨m, c⟩ := e
      have ha : alookup m st.core.mgr.handlers = some c := by rw [hh]; exact alookup_cons_self _ _ _
      obtain ⟨x, hx, h2, h3⟩ := ht.live.handler m c ha
      have he := (hq.2 x (List.mem_of_getElem? hx)).2
      simp [h3, h2] at he

/-! ### witnesses: the pre-fix leak histories (F-10 a, b, c) are quiescent and now leave nothing -/

/-- `{"jsonrpc":"2.0","id":0,"error":{"code":-32000,"message":"no"}}` -/
def tRefuse : Text := [123, 34, 106, 115, 111, 110, 114, 112, 99, 34, 58, 34, 50, 46, 48, 34, 44, 34, 105, 100, 34, 58, 48, 44, 34, 101, 114, 114, 111, 114, 34, 58, 123, 34, 99, 111, 100, 101, 34, 58, 45, 51, 50, 48, 48, 48, 44, 34, 109, 101, 115, 115, 97, 103, 101, 34, 58, 34, 110, 111, 34, 125, 125]
/-- `{"jsonrpc":"2.0","id":0,"result":"S"}` -/
def tAccept0 : Text := [123, 34, 106, 115, 111, 110, 114, 112, 99, 34, 58, 34, 50, 46, 48, 34, 44, 34, 105, 100, 34, 58, 48, 44, 34, 114, 101, 115, 117, 108, 116, 34, 58, 34, 83, 34, 125]
/-- `{"jsonrpc":"2.0","id":1,"result":true}` -/
def tAck1 : Text := [123, 34, 106, 115, 111, 110, 114, 112, 99, 34, 58, 34, 50, 46, 48, 34, 44, 34, 105, 100, 34, 58, 49, 44, 34, 114, 101, 115, 117, 108, 116, 34, 58, 116, 114, 117, 101, 125]
/-- `{"jsonrpc":"2.0","method":"sub","params":{"subscription":"S","error":"bye"}}` -/
def tCloseS : Text := [123, 34, 106, 115, 111, 110, 114, 112, 99, 34, 58, 34, 50, 46, 48, 34, 44, 34, 109, 101, 116, 104, 111, 100, 34, 58, 34, 115, 117, 98, 34, 44, 34, 112, 97, 114, 97, 109, 115, 34, 58, 123, 34, 115, 117, 98, 115, 99, 114, 105, 112, 116, 105, 111, 110, 34, 58, 34, 83, 34, 44, 34, 101, 114, 114, 111, 114, 34, 58, 34, 98, 121, 101, 34, 125, 125]
/-- `{"jsonrpc":"2.0","id":0,"result":7}` -/
def tCallAns : Text := [123, 34, 106, 115, 111, 110, 114, 112, 99, 34, 58, 34, 50, 46, 48, 34, 44, 34, 105, 100, 34, 58, 48, 44, 34, 114, 101, 115, 117, 108, 116, 34, 58, 55, 125]

def tSubM : Text := [115, 117, 98]
def tUnsubM : Text := [117, 110, 115, 117, 98]

/-- (a) subscribe refused -/
def leakRefused : List Step := [.newSubscribe tSubM tUnsubM, .sendTask 0, .recv tRefuse]
/-- (b) subscribe accepted, explicit unsubscribe, acknowledged -/
def leakUnsubscribed : List Step :=
  [.newSubscribe tSubM tUnsubM, .sendTask 0, .recv tAccept0, .unsubscribeStream 0, .sendTask 0, .recv tAck1]
/-- (c) subscribe accepted, closed by the server -/
def leakServerClosed : List Step := [.newSubscribe tSubM tUnsubM, .sendTask 0, .recv tAccept0, .recv tCloseS]
/-- (d) subscribe future abandoned, then accepted: the unsubscribe is written (`sendTask`) and acknowledged -/
def leakAbandoned : List Step :=
  [.newSubscribe tSubM tUnsubM, .sendTask 0, .abandon 0, .recv tAccept0, .sendTask 0, .recv tAck1]

/-- what was handed to the transport -/
def wiresIn : List Effect → List Text
  | [] => []
  | .wire t :: r => t :: wiresIn r
  | _ :: r => wiresIn r

/-- decidable rendering of `Quiescent` for concrete histories -/
def quiescentB (st : St) (trace : List Effect) : Bool :=
  (List.range st.nextOp).all (fun k => compCount k trace == 1) &&
  st.core.chans.all (fun ch => (!ch.unsubscribed || ch.acked) && match ch.owner with
    | .sub _ => ch.closedByServer || ch.unsubscribed
    | .method _ => !ch.senderAlive)

theorem quiescentB_sound (st : St) (trace : List Effect) (h : quiescentB st trace = true) : Quiescent st trace := by
  unfold quiescentB at h
  simp only [Bool.and_eq_true, List.all_eq_true, List.mem_range, beq_iff_eq] at h
  refine ⟨fun k hk => h.1 k hk, fun ch hc => ?_⟩
  have := h.2 ch hc
  unfold Ended
  refine ⟨?_, ?_⟩
  · intro hu; have := this.1; simp [hu] at this; exact this
  · cases ho : ch.owner with
    | sub s => have := this.2; simp [ho] at this ⊢; exact this
    | method m => have := this.2; simp [ho] at this ⊢; exact this

example : quiescentB (run (St.init 2 false) leakRefused).1 (run (St.init 2 false) leakRefused).2 = true ∧
    (run (St.init 2 false) leakRefused).1.core.mgr.sizes = (0, 0, 0, 0) := by decide
example : quiescentB (run (St.init 2 false) leakUnsubscribed).1 (run (St.init 2 false) leakUnsubscribed).2 = true ∧
    (run (St.init 2 false) leakUnsubscribed).1.core.mgr.sizes = (0, 0, 0, 0) := by decide
example : quiescentB (run (St.init 2 false) leakServerClosed).1 (run (St.init 2 false) leakServerClosed).2 = true ∧
    (run (St.init 2 false) leakServerClosed).1.core.mgr.sizes = (0, 0, 0, 0) := by decide
example : quiescentB (run (St.init 2 false) leakAbandoned).1 (run (St.init 2 false) leakAbandoned).2 = true ∧
    (run (St.init 2 false) leakAbandoned).1.core.mgr.sizes = (0, 0, 0, 0) ∧
    wiresIn ((run (St.init 2 false) leakAbandoned).2) = [encodeRequest { id := .num 0, method := tSubM, params := none },
                                                          unsubRaw (.num 1) tUnsubM (.str [83])] := by decide
-- while the unsubscribe is in flight the marker and the `PendingUnsubscribe` slot are there — and the
-- history is not quiescent (the acknowledgement is still owed)
example : quiescentB (run (St.init 2 false) (leakUnsubscribed.take 5)).1 (run (St.init 2 false) (leakUnsubscribed.take 5)).2 = false ∧
    (run (St.init 2 false) (leakUnsubscribed.take 5)).1.core.mgr.sizes = (2, 0, 0, 0) := by decide
-- a call, answered — quiescent and empty
example : quiescentB (run (St.init 2 false) [.newCall tM none, .sendTask 0, .recv tCallAns]).1
      (run (St.init 2 false) [.newCall tM none, .sendTask 0, .recv tCallAns]).2 = true ∧
    (run (St.init 2 false) [.newCall tM none, .sendTask 0, .recv tCallAns]).1.core.mgr.sizes = (0, 0, 0, 0) := by decide

/-! ### C18.2 — list length is `HashMap::len`; every table entry belongs to open work -/

/-- keys of each table are pairwise distinct in every reachable state, so the list lengths reported
by the model are the `len()` of the real hash maps -/
theorem c18_keys_unique (st : St) (hr : Reachable st) :
    (akeys st.core.mgr.requests).Nodup ∧ (akeys st.core.mgr.subs).Nodup ∧
    (akeys st.core.mgr.batches).Nodup ∧ (akeys st.core.mgr.handlers).Nodup :=
  ⟨(sku_reachable st hr).requests, (sku_reachable st hr).subs, (sku_reachable st hr).batches, (sku_reachable st hr).handlers⟩

/-- every entry belongs to work that is still open (at every moment, not only at quiescence): a
subscription entry to a channel neither closed by the server nor unsubscribed; a reverse-index
entry to such a subscription entry; a handler entry to a channel that still has its sender; a bare
`PendingMethodCall(None)` slot to a pending subscribe, an active subscription or an unsubscribe not
yet acknowledged; a `PendingUnsubscribe` entry to an unsubscribe not yet acknowledged -/
theorem c18_tables_hold_open_work (st : St) (hr : Reachable st) :
    (∀ id uid c um, alookup id st.core.mgr.requests = some (.sub uid c um) →
      ∃ x, st.core.chans[c]? = some x ∧ x.closedByServer = false ∧ x.unsubscribed = false ∧ x.senderAlive = true) ∧
    (∀ s rid, alookup s st.core.mgr.subs = some rid → ∃ uid c um, alookup rid st.core.mgr.requests = some (.sub uid c um)) ∧
    (∀ m c, alookup m st.core.mgr.handlers = some c → ∃ x, st.core.chans[c]? = some x ∧ x.senderAlive = true) ∧
    (∀ k, alookup k st.core.mgr.requests = some (.pendingCall none) →
      (∃ sid t um, alookup sid st.core.mgr.requests = some (.pendingSub k t um)) ∨
      (∃ sid c um, alookup sid st.core.mgr.requests = some (.sub k c um)) ∨
      (∃ (c : ChanId) (x : Chan), st.core.chans[c]? = some x ∧ x.unsubscribed = true ∧ x.acked = false ∧ x.rid = k)) ∧
    (∀ k rid c, alookup k st.core.mgr.requests = some (.pendingUnsub rid c) →
      ∃ x, st.core.chans[c]? = some x ∧ x.unsubscribed = true ∧ x.acked = false) := by
  have ht := (stinv_reachable st hr).1
  have hrt := (sinv_reachable st hr).routes
  refine ⟨?_, ?_, ?_, ht.slot, ?_⟩
  · intro id uid c um h
    obtain ⟨x, h1, _, h3, h4, h5, _⟩ := ht.live.sub id uid c um h
    exact ⟨x, h1, h4, h3, h5⟩
  · intro s rid h
    obtain ⟨uid, c, um, h1, _⟩ := hrt.subs s rid h
    exact ⟨uid, c, um, h1⟩
  · intro m c h
    obtain ⟨x, h1, h2, _⟩ := ht.live.handler m c h
    exact ⟨x, h1, h2⟩
  · intro k rid c h
    obtain ⟨x, h1, h2, h3, _⟩ := ht.unsub.unsub k rid c h
    exact ⟨x, h1, h2, h3⟩

/-! ### C18.3 — ids of finished work cannot capture a later message -/

/-- once a call has been completed, its id is no key of the pending table any more: a later response
with that id completes nothing and is rejected (`NotPendingRequest`) -/
theorem c18_no_capture_call (st st' : Core) (r r' : Response) (t : Ticket) (effs : List Effect)
    (hc : alookup r.id st.mgr.requests = some (.pendingCall (some t)))
    (h : processSingleResponse st r = .ok (st', effs)) (hid : r'.id = r.id) :
    processSingleResponse st' r' = .error (.notPending r'.id) := by
  have hs : st.mgr.requestStatus r.id = .pendingCall := by unfold Mgr.requestStatus; rw [hc]
  have hcp : st.mgr.completePendingCall r.id = some ({ st.mgr with requests := aerase r.id st.mgr.requests }, some t) := by
    unfold Mgr.completePendingCall; rw [hc]
  unfold processSingleResponse at h
  simp only [hs, hcp] at h
  simp at h
  obtain ⟨e1, _⟩ := h
  subst e1
  unfold processSingleResponse
  have : ({ st with mgr := { st.mgr with requests := aerase r.id st.mgr.requests } } : Core).mgr.requestStatus r'.id = .invalid := by
    unfold Mgr.requestStatus
    simp only [hid, alookup_aerase_self]
  rw [this]

/-- at quiescence **every** response is rejected: no id of finished work can capture a later message -/
theorem c18_no_capture_at_quiescence (cap : Nat) (strIds : Bool) (steps : List Step)
    (hq : Quiescent (run (St.init cap strIds) steps).1 (run (St.init cap strIds) steps).2) (r : Response) :
    processSingleResponse (run (St.init cap strIds) steps).1.core r = .error (.notPending r.id) := by
  have h := (c18_empty_at_quiescence cap strIds steps hq).1
  unfold processSingleResponse Mgr.requestStatus
  rw [h]
  simp [alookup]

/-- pre-fix the reserved slot of a refused subscribe swallowed one stray response; now it is rejected -/
example : (step (run (St.init 2 false) leakRefused).1 (.recv tAck1)).fatal = some (.notPending (.num 1)) := by
  decide

/-! ### C18.4 — the notification-handler table (`subscribe_to_method`)

A handler entry is removed by `UnregisterNotification` (sent by `Subscription::unsubscribe`, and by
`Drop` when the request queue has room) or, failing that, by the first notification for its method
that finds the receiver gone.  `Dead c`, `Lingering c m`, `Gone c` are defined in
Proofs/ClientHandlerLemmas.lean. -/

/-- a single incoming text that the read task classifies as a notification for method `m` -/
def IsNotifFor (raw : Text) (m : Text) : Prop :=
  firstNonWs raw = some 123 ∧ ∃ p, classifyIncoming raw = .notif m p

theorem recv_notif_core (st : St) (raw : Text) (m : Text) (p : Option Text) (h1 : firstNonWs raw = some 123)
    (h2 : classifyIncoming raw = .notif m p) :
    (step st (.recv raw)).st.core = (processNotification st.core m p).1 ∧
    (step st (.recv raw)).effs = (processNotification st.core m p).2 := by
  have e : handleBack st.core raw =
      { st := (processNotification st.core m p).1, effs := (processNotification st.core m p).2 } := by
    unfold handleBack
    simp only [h1]
    simp only [beq_self_eq_true, if_true]
    unfold handleSingle
    simp only [h2]
  have e1 : (step st (.recv raw)).st.core = (handleBack st.core raw).st := rfl
  have e2 : (step st (.recv raw)).effs = (handleBack st.core raw).effs := rfl
  rw [e1, e2, e]
  exact ⟨rfl, rfl⟩

/-- in a reachable state the entry for `m` is the only one that can point to `m`'s channel -/
theorem lingering_of_reachable (st : St) (hr : Reachable st) (c : ChanId) (m : Text)
    (hh : alookup m st.core.mgr.handlers = some c) (hd : Dead c st.core) : Lingering c m st.core := by
  refine ⟨hd, ?_⟩
  intro m' hm'
  have hl := slive_reachable st hr
  obtain ⟨x, hx, _, ho⟩ := hl.handler m c hh
  obtain ⟨x', hx', _, ho'⟩ := hl.handler m' c hm'
  rw [hx] at hx'
  simp at hx'
  subst hx'
  rw [ho] at ho'
  simp at ho'
  exact ho'.symm

/-- **A dropped handler is gone after at most one more notification for its method or the
Unregister message, whichever comes first.**  `st` is any reachable state in which `m`'s handler
entry points to channel `c` and the application has dropped the receiver of `c` (`Drop` with or
without room in the request queue, or a registration whose caller gave up).  Then after any further
steps: (1) `c`'s receiver stays dropped and no other entry ever points to `c`; (2) a notification
for `m` leaves no entry pointing to `c`, and if the entry was still there it delivers nothing;
(3) processing `UnregisterNotification(m)` leaves no entry for `m` at all. -/
theorem c18_dropped_handler_gone (st : St) (hr : Reachable st) (c : ChanId) (m : Text)
    (hh : alookup m st.core.mgr.handlers = some c) (hd : Dead c st.core) (steps : List Step) :
    Lingering c m (run st steps).1.core ∧
    (∀ raw, IsNotifFor raw m →
      Gone c (step (run st steps).1 (.recv raw)).st.core ∧
      alookup m (step (run st steps).1 (.recv raw)).st.core.mgr.handlers ≠ some c ∧
      (alookup m (run st steps).1.core.mgr.handlers = some c →
        alookup m (step (run st steps).1 (.recv raw)).st.core.mgr.handlers = none ∧
        (step (run st steps).1 (.recv raw)).effs = [])) ∧
    (∀ i, (run st steps).1.pool[i]? = some (.unregisterNotif m) →
      Gone c (step (run st steps).1 (.sendTask i)).st.core ∧
      alookup m (step (run st steps).1 (.sendTask i)).st.core.mgr.handlers = none) := by
  have hl : Lingering c m (run st steps).1.core :=
    lingering_hrel (hrel_run steps st) (lingering_of_reachable st hr c m hh hd)
  refine ⟨hl, ?_, ?_⟩
  · intro raw ⟨h1, p, h2⟩
    obtain ⟨e1, e2⟩ := recv_notif_core (run st steps).1 raw m p h1 h2
    rw [e1, e2]
    exact lingering_notification _ c m p hl
  · intro i hp
    have e : step (run st steps).1 (.sendTask i) =
        { st := { (run st steps).1 with core := (handleFront (run st steps).1.core (.unregisterNotif m)).1,
                                        pool := removeAt (run st steps).1.pool i },
          effs := (handleFront (run st steps).1.core (.unregisterNotif m)).2 } := by simp only [step, hp]
    rw [e]
    exact lingering_unregister _ c m hl

/-- once no entry points to a channel, none ever will: the finished handler's channel captures no
later notification (`process_notification` only feeds the channel its table entry points to) -/
theorem c18_gone_forever (st : St) (c : ChanId) (hg : Gone c st.core) (steps : List Step) :
    Gone c (run st steps).1.core ∧
    ∀ m p q, Effect.push c q ∉ (processNotification (run st steps).1.core m p).2 := by
  have hg' : Gone c (run st steps).1.core := gone_hrel (hrel_run steps st) hg
  refine ⟨hg', ?_⟩
  intro m p q hmem
  unfold processNotification at hmem
  cases h1 : (run st steps).1.core.mgr.asNotificationHandler m with
  | none => simp [h1] at hmem
  | some c' =>
    simp only [h1] at hmem
    cases h2 : (run st steps).1.core.chans[c']? with
    | none => simp [h2] at hmem
    | some ch =>
      simp only [h2] at hmem
      cases h3 : ch.sendRes with
      | ok =>
        simp [h3] at hmem
        exact hg'.2 m (by rw [hmem.1]; exact h1)
      | closed => simp [h3] at hmem
      | full => simp [h3] at hmem

/-- `Drop` of a method stream: the receiver is gone whether or not the request queue had room; the
`UnregisterNotification` message is queued exactly when it had (`try_send`) -/
theorem c18_drop_handler (st : St) (hr : Reachable st) (c : ChanId) (m : Text) (ch : Chan) (room : Bool)
    (hh : alookup m st.core.mgr.handlers = some c) (hc : st.core.chans[c]? = some ch)
    (hra : ch.receiverAlive = true) (hk : ch.hasKind = true) :
    Lingering c m (step st (.dropStream c room)).st.core ∧
    (step st (.dropStream c room)).st.pool = (if room then st.pool ++ [.unregisterNotif m] else st.pool) := by
  have hown : ch.owner = .method m := by
    obtain ⟨x, hx, _, ho⟩ := (slive_reachable st hr).handler m c hh
    rw [hc] at hx; simp at hx; subst hx; exact ho
  have e : step st (.dropStream c room) =
      { st := { st with core := st.core.modChan c (fun x => { dropReceiver x with hasKind := false }),
                        pool := if ch.hasKind && room then st.pool ++ [closeMsg ch.owner] else st.pool } } := by
    simp only [step, hc, hra, Bool.not_true, Bool.false_eq_true, if_false]
  have hd : Dead c (step st (.dropStream c room)).st.core := by
    rw [e]
    refine ⟨{ dropReceiver ch with hasKind := false }, ?_, rfl⟩
    simp only [Core.modChan, modifyAt_get, hc]
    try simp
  refine ⟨lingering_of_reachable _ (reachable_step st _ hr) c m ?_ hd, ?_⟩
  · rw [e]; exact hh
  · rw [e]
    simp only [hk, hown, closeMsg, Bool.true_and]

/-- a registration whose caller gave up before the send task got to it still creates the entry, with
nobody listening: it lingers exactly like a dropped one -/
theorem c18_abandoned_registration (st : Core) (m : Text) (t : Ticket)
    (hv : alookup m st.mgr.handlers = none) (ha : st.alive t = false)
    (hb : ∀ m' c', alookup m' st.mgr.handlers = some c' → c' < st.chans.length) :
    Lingering st.chans.length m (handleFront st (.registerNotif m t)).1 ∧
    alookup m (handleFront st (.registerNotif m t)).1.mgr.handlers = some st.chans.length := by
  have hins : st.mgr.insertNotificationHandler m st.chans.length =
      some { st.mgr with handlers := (m, st.chans.length) :: st.mgr.handlers } := by
    unfold Mgr.insertNotificationHandler; rw [hv]
  have e : (handleFront st (.registerNotif m t)).1 =
      (({ st with mgr := { st.mgr with handlers := (m, st.chans.length) :: st.mgr.handlers } }).newChan (.method m) t.op).1.modChan
        st.chans.length (fun ch => { dropReceiver ch with hasKind := false }) := by
    unfold handleFront
    simp only [hins, ha]
    rfl
  rw [e]
  refine ⟨⟨?_, ?_⟩, ?_⟩
  · refine ⟨{ dropReceiver { cap := st.cap, owner := .method m, op := t.op } with hasKind := false }, ?_, rfl⟩
    simp only [Core.modChan, Core.newChan, modifyAt_get]
    simp
  · intro m' hm'
    have hm'' : alookup m' ((m, st.chans.length) :: st.mgr.handlers) = some st.chans.length := hm'
    by_cases e2 : m' = m
    · exact e2
    · rw [alookup_cons_ne m' m _ _ e2] at hm''
      exact absurd (hb m' _ hm'') (Nat.lt_irrefl _)
  · show alookup m ((m, st.chans.length) :: st.mgr.handlers) = some st.chans.length
    exact alookup_cons_self _ _ _

/-- the name of a finished handler is free: registering it again succeeds, on a brand-new channel -/
theorem c18_name_free_again (st : Core) (m : Text) (t : Ticket)
    (hv : alookup m st.mgr.handlers = none) (ha : st.alive t = true) :
    (handleFront st (.registerNotif m t)).2 = [.complete t (.registered st.chans.length)] ∧
    alookup m (handleFront st (.registerNotif m t)).1.mgr.handlers = some st.chans.length ∧
    (handleFront st (.registerNotif m t)).1.chans = st.chans ++ [{ cap := st.cap, owner := .method m, op := t.op }] := by
  have hins : st.mgr.insertNotificationHandler m st.chans.length =
      some { st.mgr with handlers := (m, st.chans.length) :: st.mgr.handlers } := by
    unfold Mgr.insertNotificationHandler; rw [hv]
  unfold handleFront
  simp only [hins, ha, if_true]
  exact ⟨by first | rfl | trivial, alookup_cons_self _ _ _, by first | rfl | trivial⟩

/-- while the entry is there the name is taken: a second registration is refused and changes nothing -/
theorem c18_name_taken (st : Core) (m : Text) (t : Ticket) (c : ChanId)
    (hv : alookup m st.mgr.handlers = some c) :
    (handleFront st (.registerNotif m t)).1 = st ∧
    (handleFront st (.registerNotif m t)).2 = st.completeIfAlive t .alreadyRegistered := by
  have hins : st.mgr.insertNotificationHandler m st.chans.length = none := by
    unfold Mgr.insertNotificationHandler; rw [hv]
  unfold handleFront
  simp only [hins]
  exact ⟨by first | rfl | trivial, by first | rfl | trivial⟩

/-! witnesses (handler table): the histories of corpus/C18/handler-table.case -/

/-- `TICK` -/
def tTickM : Text := [116, 105, 99, 107]
/-- `{"jsonrpc":"2.0","method":"tick","params":[1]}` -/
def tTick : Text := [123, 34, 106, 115, 111, 110, 114, 112, 99, 34, 58, 34, 50, 46, 48, 34, 44, 34, 109, 101, 116, 104, 111, 100, 34, 58, 34, 116, 105, 99, 107, 34, 44, 34, 112, 97, 114, 97, 109, 115, 34, 58, 91, 49, 93, 125]

example : IsNotifFor tTick tTickM := by
  refine ⟨by decide, some [91, 49, 93], by decide⟩

/-- register, drop with a full request queue (`room = false`): the entry lingers … -/
def handlerDroppedFull : List Step := [.newRegister tTickM, .sendTask 0, .dropStream 0 false]
example : (run (St.init 2 false) handlerDroppedFull).1.core.mgr.sizes = (0, 0, 0, 1) ∧
    (run (St.init 2 false) handlerDroppedFull).1.pool = [] := by decide
/-- … until the next notification for the method: nothing delivered, table empty, quiescent -/
example : (run (St.init 2 false) (handlerDroppedFull ++ [.recv tTick])).1.core.mgr.sizes = (0, 0, 0, 0) ∧
    (run (St.init 2 false) (handlerDroppedFull ++ [.recv tTick])).2 = [.complete { op := 0, wire := .null } (.registered 0)] ∧
    quiescentB (run (St.init 2 false) (handlerDroppedFull ++ [.recv tTick])).1
      (run (St.init 2 false) (handlerDroppedFull ++ [.recv tTick])).2 = true := by decide
/-- with room the Unregister message does it, without any notification -/
example : (run (St.init 2 false) [.newRegister tTickM, .sendTask 0, .dropStream 0 true, .sendTask 0]).1.core.mgr.sizes = (0, 0, 0, 0) := by
  decide
/-- explicit unsubscribe: removed by the Unregister message; a later notification goes nowhere; the
name can be registered again and the new stream (channel 1) gets the next notification -/
example :
    (run (St.init 2 false) [.newRegister tTickM, .sendTask 0, .unsubscribeStream 0, .sendTask 0, .recv tTick]).1.core.mgr.sizes = (0, 0, 0, 0) ∧
    (run (St.init 2 false) [.newRegister tTickM, .sendTask 0, .unsubscribeStream 0, .sendTask 0, .recv tTick,
        .newRegister tTickM, .sendTask 0, .recv tTick]).2 =
      [.complete { op := 0, wire := .null } (.registered 0), .complete { op := 1, wire := .null } (.registered 1),
       .push 1 [91, 49, 93]] := by decide
/-- abandoned registration: entry created with nobody listening, removed by the first notification -/
example :
    (run (St.init 2 false) [.newRegister tTickM, .abandon 0, .sendTask 0]).1.core.mgr.sizes = (0, 0, 0, 1) ∧
    (run (St.init 2 false) [.newRegister tTickM, .abandon 0, .sendTask 0, .recv tTick]).1.core.mgr.sizes = (0, 0, 0, 0) := by
  decide
/-- a second registration while the first is live is refused -/
example : (run (St.init 2 false) [.newRegister tTickM, .sendTask 0, .newRegister tTickM, .sendTask 0]).2 =
    [.complete { op := 0, wire := .null } (.registered 0), .complete { op := 1, wire := .null } .alreadyRegistered] := by decide

/-! ### C18.5 — the answer to an unsubscribe call ends it whatever it says -/

/-- The response bearing the id of a `PendingUnsubscribe(rid)` entry releases that entry **and** the
marker `PendingMethodCall(None)` left under the subscribe id `rid` — for every payload (`true`,
`false`, an error object, anything): nothing in the hypotheses or in the code path looks at
`r.payload`.  Nobody waits for the outcome (no effect); afterwards a response bearing either id is
rejected as `NotPendingRequest`. -/
theorem c18_unsub_ack_any_payload (st : Core) (r : Response) (rid : Id) (c : ChanId)
    (hu : alookup r.id st.mgr.requests = some (.pendingUnsub rid c))
    (hm : alookup rid st.mgr.requests = some (.pendingCall none)) :
    ∃ st', processSingleResponse st r = .ok (st', []) ∧
      st'.mgr.requests = aerase rid (aerase r.id st.mgr.requests) ∧
      st'.mgr.subs = st.mgr.subs ∧ st'.mgr.batches = st.mgr.batches ∧ st'.mgr.handlers = st.mgr.handlers ∧
      alookup r.id st'.mgr.requests = none ∧ alookup rid st'.mgr.requests = none ∧
      (∀ r' : Response, r'.id = r.id ∨ r'.id = rid → processSingleResponse st' r' = .error (.notPending r'.id)) := by
  have hne : rid ≠ r.id := by
    intro e; rw [e, hu] at hm; simp at hm
  have hs : st.mgr.requestStatus r.id = .pendingCall := by unfold Mgr.requestStatus; rw [hu]
  have hm' : alookup rid (aerase r.id st.mgr.requests) = some (.pendingCall none) := by
    rw [alookup_aerase_ne rid r.id _ hne]; exact hm
  have hcp : st.mgr.completePendingCall r.id =
      some ({ st.mgr with requests := aerase rid (aerase r.id st.mgr.requests) }, none) := by
    unfold Mgr.completePendingCall
    rw [hu]
    simp only [Mgr.releaseReservedSlot, hm']
  have hres : processSingleResponse st r =
      .ok (({ st with mgr := { st.mgr with requests := aerase rid (aerase r.id st.mgr.requests) } }).ackAt (st.mgr.ackTarget r.id), []) := by
    unfold processSingleResponse
    simp only [hs, hcp]
  refine ⟨_, hres, ?_, ?_, ?_, ?_, ?_, ?_, ?_⟩
  · rw [ackAt_mgr]
  · rw [ackAt_mgr]
  · rw [ackAt_mgr]
  · rw [ackAt_mgr]
  · rw [ackAt_mgr]
    show alookup r.id (aerase rid (aerase r.id st.mgr.requests)) = none
    rw [alookup_aerase_ne r.id rid _ (fun e => hne e.symm)]
    exact alookup_aerase_self _ _
  · rw [ackAt_mgr]
    exact alookup_aerase_self _ _
  · intro r' hr'
    unfold processSingleResponse Mgr.requestStatus
    rw [ackAt_mgr]
    have hnone : alookup r'.id (aerase rid (aerase r.id st.mgr.requests)) = none := by
      rcases hr' with e | e
      · rw [e, alookup_aerase_ne r.id rid _ (fun e => hne e.symm)]; exact alookup_aerase_self _ _
      · rw [e]; exact alookup_aerase_self _ _
    simp only [hnone]

/-- the same without assuming the marker: whatever the acknowledgement says, its own entry is gone
and no bare marker is left under the subscribe id -/
theorem c18_unsub_ack_no_marker_left (st : Core) (r : Response) (rid : Id) (c : ChanId)
    (hu : alookup r.id st.mgr.requests = some (.pendingUnsub rid c)) :
    ∃ st', processSingleResponse st r = .ok (st', []) ∧
      alookup r.id st'.mgr.requests = none ∧ alookup rid st'.mgr.requests ≠ some (.pendingCall none) := by
  have hs : st.mgr.requestStatus r.id = .pendingCall := by unfold Mgr.requestStatus; rw [hu]
  have hcp : st.mgr.completePendingCall r.id =
      some (({ st.mgr with requests := aerase r.id st.mgr.requests }).releaseReservedSlot rid, none) := by
    unfold Mgr.completePendingCall; rw [hu]
  have hres : processSingleResponse st r =
      .ok (({ st with mgr := ({ st.mgr with requests := aerase r.id st.mgr.requests }).releaseReservedSlot rid }).ackAt (st.mgr.ackTarget r.id), []) := by
    unfold processSingleResponse
    simp only [hs, hcp]
  refine ⟨_, hres, ?_, ?_⟩
  · rw [ackAt_mgr]
    rcases releaseReservedSlot_cases ({ st.mgr with requests := aerase r.id st.mgr.requests }) rid with h | ⟨_, h⟩
    · rw [h]; exact alookup_aerase_self _ _
    · rw [h]
      show alookup r.id (aerase rid (aerase r.id st.mgr.requests)) = none
      by_cases e : r.id = rid
      · rw [e]; exact alookup_aerase_self _ _
      · rw [alookup_aerase_ne r.id rid _ e]; exact alookup_aerase_self _ _
  · rw [ackAt_mgr]
    by_cases hm : alookup rid (aerase r.id st.mgr.requests) = some (.pendingCall none)
    · have : ({ st.mgr with requests := aerase r.id st.mgr.requests } : Mgr).releaseReservedSlot rid =
          { st.mgr with requests := aerase rid (aerase r.id st.mgr.requests) } := by
        simp only [Mgr.releaseReservedSlot, hm]
      rw [this]
      show alookup rid (aerase rid (aerase r.id st.mgr.requests)) ≠ _
      rw [alookup_aerase_self]; simp
    · rcases releaseReservedSlot_cases ({ st.mgr with requests := aerase r.id st.mgr.requests }) rid with h | ⟨h1, _⟩
      · rw [h]; exact hm
      · exact absurd h1 hm

/-- `{"jsonrpc":"2.0","id":1,"error":{"code":-32000,"message":"subscription not found"}}` -/
def tAckErr1 : Text := [123, 34, 106, 115, 111, 110, 114, 112, 99, 34, 58, 34, 50, 46, 48, 34, 44, 34, 105, 100, 34, 58, 49, 44, 34, 101, 114, 114, 111, 114, 34, 58, 123, 34, 99, 111, 100, 101, 34, 58, 45, 51, 50, 48, 48, 48, 44, 34, 109, 101, 115, 115, 97, 103, 101, 34, 58, 34, 115, 117, 98, 115, 99, 114, 105, 112, 116, 105, 111, 110, 32, 110, 111, 116, 32, 102, 111, 117, 110, 100, 34, 125, 125]

/-- subscribe accepted, explicit unsubscribe, the server answers the unsubscribe call with an error -/
def unsubAnsweredWithError : List Step :=
  [.newSubscribe tSubM tUnsubM, .sendTask 0, .recv tAccept0, .unsubscribeStream 0, .sendTask 0, .recv tAckErr1]

example : quiescentB (run (St.init 2 false) unsubAnsweredWithError).1 (run (St.init 2 false) unsubAnsweredWithError).2 = true ∧
    (run (St.init 2 false) unsubAnsweredWithError).1.core.mgr.sizes = (0, 0, 0, 0) ∧
    (run (St.init 2 false) (unsubAnsweredWithError.take 5)).1.core.mgr.sizes = (2, 0, 0, 0) := by decide
-- the stale unsubscribe id / subscribe id capture nothing afterwards
example : (step (run (St.init 2 false) unsubAnsweredWithError).1 (.recv tAck1)).fatal = some (.notPending (.num 1)) ∧
    (step (run (St.init 2 false) unsubAnsweredWithError).1 (.recv tAccept0)).fatal = some (.notPending (.num 0)) := by decide

/-! ### C18.5 — every exit of the subscribe-response step: no reserved slot without a subscription -/

/-- after `release_reserved_slot(id)` no bare marker `PendingMethodCall(None)` is left under `id` -/
theorem releaseReservedSlot_no_marker (m : Mgr) (id : Id) :
    alookup id (m.releaseReservedSlot id).requests ≠ some (.pendingCall none) := by
  by_cases hm : alookup id m.requests = some (.pendingCall none)
  · have : m.releaseReservedSlot id = { m with requests := aerase id m.requests } := by
      simp only [Mgr.releaseReservedSlot, hm]
    rw [this]
    show alookup id (aerase id m.requests) ≠ _
    rw [alookup_aerase_self]; simp
  · rcases releaseReservedSlot_cases m id with h | ⟨h1, _⟩
    · rw [h]; exact hm
    · exact absurd h1 hm

/-- The `PendingSubscription` arm of `process_single_response` has four exits (error response, result
that is no subscription id, subscription id already in use = `insert_subscription` failed, subscription
installed).  Either the subscription **is installed** (entry under the subscribe id that owns the
reserved id `uid`, reverse index entry for a subscription id that was free), or the tables are those
before the step with the reserved slot released: no bare marker is left under `uid`, `subs` is
untouched, and the caller is not handed a subscription.  Seeded mutant C18-R6 drops the release on the
third exit. -/
theorem c18_subscribe_exit_no_reserved_slot (st : Core) (r : Response) (uid : Id) (t : Ticket) (um : Text) :
    (∃ s, alookup s st.mgr.subs = none ∧ alookup r.id st.mgr.requests = none ∧
        (completeSubscribe st r uid t um).1.mgr =
          { st.mgr with requests := (r.id, .sub uid st.chans.length um) :: st.mgr.requests,
                        subs := (s, r.id) :: st.mgr.subs }) ∨
    ((completeSubscribe st r uid t um).1.mgr = st.mgr.releaseReservedSlot uid ∧
      alookup uid (completeSubscribe st r uid t um).1.mgr.requests ≠ some (.pendingCall none) ∧
      (completeSubscribe st r uid t um).1.mgr.subs = st.mgr.subs ∧
      ∃ o, (completeSubscribe st r uid t um).2 = st.completeIfAlive t o ∧ ∀ c s, o ≠ .subscribed c s) := by
  have hrel : ∀ o : Outcome, (∀ c s, o ≠ .subscribed c s) →
      (({ st with mgr := st.mgr.releaseReservedSlot uid } : Core), st.completeIfAlive t o).1.mgr = st.mgr.releaseReservedSlot uid ∧
      alookup uid (({ st with mgr := st.mgr.releaseReservedSlot uid } : Core), st.completeIfAlive t o).1.mgr.requests ≠ some (.pendingCall none) ∧
      (({ st with mgr := st.mgr.releaseReservedSlot uid } : Core), st.completeIfAlive t o).1.mgr.subs = st.mgr.subs ∧
      ∃ o', (({ st with mgr := st.mgr.releaseReservedSlot uid } : Core), st.completeIfAlive t o).2 = st.completeIfAlive t o' ∧ ∀ c s, o' ≠ .subscribed c s := by
    intro o ho
    exact ⟨rfl, releaseReservedSlot_no_marker st.mgr uid, (releaseReservedSlot_others st.mgr uid).1, o, rfl, ho⟩
  unfold completeSubscribe
  cases hp : r.payload with
  | error e => exact Or.inr (hrel (.callErr e) (by intro c s h; cases h))
  | result raw =>
    simp only
    cases hd : decodeSubId raw with
    | none => exact Or.inr (hrel .badSubId (by intro c s h; cases h))
    | some s =>
      simp only
      cases hins : st.mgr.insertSubscription r.id uid s st.chans.length um with
      | none => exact Or.inr (hrel .invalidSubId (by intro c s h; cases h))
      | some m' =>
        obtain ⟨h1, h2, e⟩ := insertSubscription_spec _ _ _ _ _ _ _ hins
        refine Or.inl ⟨s, h2, h1, ?_⟩
        simp only
        by_cases hal : st.alive t = true
        · simp only [hal, if_true]; exact e
        · simp only [hal]
          simp only [Bool.false_eq_true, if_false, abandonedSubscribe, modChan_mgr]
          exact e

/-- The case of seeded mutant C18-R6 end to end: the response to a pending subscribe carries a
subscription id that is **still in use** on this connection.  The subscribe entry and the reserved
unsubscribe slot are both released, the active subscription is untouched, the caller gets
`InvalidSubscriptionId`, and a later response bearing either request id matches nothing pending. -/
theorem c18_subscribe_id_in_use (st : Core) (r : Response) (uid : Id) (t : Ticket) (um : Text) (raw : Text)
    (s : SubId) (owner : Id)
    (hp : alookup r.id st.mgr.requests = some (.pendingSub uid t um))
    (hm : alookup uid st.mgr.requests = some (.pendingCall none))
    (hr : r.payload = .result raw) (hd : decodeSubId raw = some s)
    (huse : alookup s st.mgr.subs = some owner) :
    ∃ st', processSingleResponse st r = .ok (st', st.completeIfAlive t .invalidSubId) ∧
      st'.mgr.requests = aerase uid (aerase r.id st.mgr.requests) ∧
      st'.mgr.subs = st.mgr.subs ∧ st'.mgr.batches = st.mgr.batches ∧ st'.mgr.handlers = st.mgr.handlers ∧
      (∀ r' : Response, r'.id = r.id ∨ r'.id = uid → processSingleResponse st' r' = .error (.notPending r'.id)) := by
  have hne : uid ≠ r.id := by
    intro e; rw [e, hp] at hm; simp at hm
  have hs : st.mgr.requestStatus r.id = .pendingSub := by unfold Mgr.requestStatus; rw [hp]
  have hcp : st.mgr.completePendingSubscription r.id =
      some ({ st.mgr with requests := aerase r.id st.mgr.requests }, uid, t, um) := by
    unfold Mgr.completePendingSubscription; rw [hp]
  have hm' : alookup uid (aerase r.id st.mgr.requests) = some (.pendingCall none) := by
    rw [alookup_aerase_ne uid r.id _ hne]; exact hm
  have hins : ({ st.mgr with requests := aerase r.id st.mgr.requests } : Mgr).insertSubscription r.id uid s st.chans.length um = none := by
    unfold Mgr.insertSubscription
    simp [huse]
  have hrelm : ({ st.mgr with requests := aerase r.id st.mgr.requests } : Mgr).releaseReservedSlot uid =
      { st.mgr with requests := aerase uid (aerase r.id st.mgr.requests) } := by
    simp only [Mgr.releaseReservedSlot, hm']
  have hres : processSingleResponse st r =
      .ok ({ st with mgr := { st.mgr with requests := aerase uid (aerase r.id st.mgr.requests) } }, st.completeIfAlive t .invalidSubId) := by
    unfold processSingleResponse
    simp only [hs, hcp]
    unfold completeSubscribe
    simp only [hr, hd, hins, hrelm]
    rfl
  refine ⟨_, hres, rfl, rfl, rfl, rfl, ?_⟩
  intro r' hr'
  unfold processSingleResponse Mgr.requestStatus
  have hnone : alookup r'.id (aerase uid (aerase r.id st.mgr.requests)) = none := by
    rcases hr' with e | e
    · rw [e, alookup_aerase_ne r.id uid _ (fun e => hne e.symm)]; exact alookup_aerase_self _ _
    · rw [e]; exact alookup_aerase_self _ _
  simp only [hnone]

/-- `{"jsonrpc":"2.0","id":2,"result":"S"}`: the second subscribe is answered with the id of the first -/
def tAccept2S : Text := [123, 34, 106, 115, 111, 110, 114, 112, 99, 34, 58, 34, 50, 46, 48, 34, 44, 34, 105, 100, 34, 58, 50, 44, 34, 114, 101, 115, 117, 108, 116, 34, 58, 34, 83, 34, 125]
/-- `{"jsonrpc":"2.0","id":3,"result":true}`: a stray response bearing the reserved id of the refused subscribe -/
def tStray3 : Text := [123, 34, 106, 115, 111, 110, 114, 112, 99, 34, 58, 34, 50, 46, 48, 34, 44, 34, 105, 100, 34, 58, 51, 44, 34, 114, 101, 115, 117, 108, 116, 34, 58, 116, 114, 117, 101, 125]

/-- subscribe accepted with "S"; a second subscribe is answered with "S" while the first is still active -/
def subIdInUse : List Step :=
  [.newSubscribe tSubM tUnsubM, .sendTask 0, .recv tAccept0, .newSubscribe tSubM tUnsubM, .sendTask 0, .recv tAccept2S]

-- two entries for the active subscription, nothing for the refused one; the reserved id 3 captures nothing;
-- after the first subscription is closed by the server the tables are empty
example : (run (St.init 2 false) subIdInUse).1.core.mgr.sizes = (2, 1, 0, 0) ∧
    (run (St.init 2 false) (subIdInUse.take 5)).1.core.mgr.sizes = (4, 1, 0, 0) ∧
    (step (run (St.init 2 false) subIdInUse).1 (.recv tStray3)).fatal = some (.notPending (.num 3)) ∧
    (run (St.init 2 false) (subIdInUse ++ [.recv tCloseS])).1.core.mgr.sizes = (0, 0, 0, 0) ∧
    quiescentB (run (St.init 2 false) (subIdInUse ++ [.recv tCloseS])).1 (run (St.init 2 false) (subIdInUse ++ [.recv tCloseS])).2 = true := by decide

/-! ### C18.6 — between the unsubscribe request and its acknowledgement the subscription id is free -/

/-- `RequestManager::unsubscribe` removes the reverse mapping subscription id → request id **at once**, not on the
acknowledgement of the unsubscribe call (seeded mutant C09-R7 kept it until then). -/
theorem c18_unsubscribed_id_free_at_once (m m' : Mgr) (rid uid : Id) (s : SubId) (c : ChanId) (um : Text)
    (h : m.unsubscribe rid s = some (m', uid, c, um)) : alookup s m'.subs = none := by
  unfold Mgr.unsubscribe at h
  split at h
  · simp only [Option.some.injEq, Prod.mk.injEq] at h
    obtain ⟨hm, _, _, _⟩ := h
    rw [← hm, (markUnsubscribing_others _ _ _ _).1]
    exact alookup_aerase_self _ _
  · simp at h

/-- Hence whatever the server still says about that id before it answers the unsubscribe call finds nothing: its close
notification changes nothing (in particular the `expect` of `process_subscription_close_response` is not reached),
a notification in flight is dropped without effect, and the id may be handed out again. -/
theorem c18_unsubscribing_id_is_silent (st : Core) (s : SubId) (h : alookup s st.mgr.subs = none) :
    processSubscriptionClose st s = st ∧
    (∀ p, processSubscriptionResponse st s p = (st, [])) ∧
    (∀ sid uid c um, alookup sid st.mgr.requests = none →
      (st.mgr.insertSubscription sid uid s c um).isSome = true) := by
  refine ⟨?_, ?_, ?_⟩
  · unfold processSubscriptionClose Mgr.getRequestIdBySubscriptionId; rw [h]
  · intro p; unfold processSubscriptionResponse Mgr.getRequestIdBySubscriptionId; rw [h]
  · intro sid uid c um hv
    unfold Mgr.insertSubscription
    simp [hv, h]

/-- subscribe accepted with "S", explicit unsubscribe; before the acknowledgement: the close notification for "S",
then a new subscribe accepted with "S" again -/
def betweenUnsubAndAck : List Step :=
  [.newSubscribe tSubM tUnsubM, .sendTask 0, .recv tAccept0, .unsubscribeStream 0, .sendTask 0, .recv tCloseS,
   .newSubscribe tSubM tUnsubM, .sendTask 0, .recv tAccept2S]

example : (run (St.init 2 false) (betweenUnsubAndAck.take 6)).1.core.mgr.sizes = (2, 0, 0, 0) ∧
    (step (run (St.init 2 false) (betweenUnsubAndAck.take 5)).1 (.recv tCloseS)).fatal = none ∧
    (run (St.init 2 false) betweenUnsubAndAck).1.core.mgr.sizes = (4, 1, 0, 0) ∧
    (run (St.init 2 false) (betweenUnsubAndAck ++ [.recv tAck1])).1.core.mgr.sizes = (2, 1, 0, 0) ∧
    (run (St.init 2 false) (betweenUnsubAndAck ++ [.recv tAck1, .recv tCloseS])).1.core.mgr.sizes = (0, 0, 0, 0) := by decide

/-! ### C18.7 — the subscribe-response step does not depend on the caller still waiting -/

/-- What the subscribe-response step does to the four tables is the same whether the caller still waits for the
outcome or has abandoned the subscribe call (future dropped / timed out): the tables after the step do not depend on
`dead`.  In particular every refusal (error response, result that is no id, id in use) releases the reserved
unsubscribe slot also when nobody is there to be told (seeded mutant C18-R9 returned before the release when handing
the error to a gone caller failed). -/
theorem c18_subscribe_exit_caller_irrelevant (st : Core) (dead' : List Nat) (r : Response) (uid : Id) (t : Ticket) (um : Text) :
    (completeSubscribe { st with dead := dead' } r uid t um).1.mgr = (completeSubscribe st r uid t um).1.mgr := by
  unfold completeSubscribe
  cases hp : r.payload with
  | error e => rfl
  | result raw =>
    simp only
    cases hd : decodeSubId raw with
    | none => rfl
    | some s =>
      simp only
      cases hins : st.mgr.insertSubscription r.id uid s st.chans.length um with
      | none => rfl
      | some m' =>
        simp only
        by_cases h1 : Core.alive { st with dead := dead' } t = true <;> by_cases h2 : st.alive t = true <;>
          simp [h1, h2, abandonedSubscribe, modChan_mgr, Core.newChan]

/-- the abandoned caller spelled out: all three refusals leave no reserved slot and tell nobody (`dropped`); an
acceptance installs the subscription and queues `SubscriptionClosed`, so that the send task unsubscribes at once -/
theorem c18_subscribe_exit_abandoned_caller (st : Core) (r : Response) (uid : Id) (t : Ticket) (um : Text)
    (hgone : st.alive t = false) :
    ((completeSubscribe st r uid t um).1.mgr = st.mgr.releaseReservedSlot uid ∧
      alookup uid (completeSubscribe st r uid t um).1.mgr.requests ≠ some (.pendingCall none) ∧
      ∃ o, (completeSubscribe st r uid t um).2 = [.dropped t o] ∧ ∀ c s, o ≠ .subscribed c s) ∨
    (∃ s, alookup s st.mgr.subs = none ∧
      (completeSubscribe st r uid t um).1.mgr =
          { st.mgr with requests := (r.id, .sub uid st.chans.length um) :: st.mgr.requests,
                        subs := (s, r.id) :: st.mgr.subs } ∧
      (completeSubscribe st r uid t um).2 =
          [.dropped t (.subscribed st.chans.length s), .toFront (.subscriptionClosed s)]) := by
  rcases c18_subscribe_exit_no_reserved_slot st r uid t um with ⟨s, h1, _, h3⟩ | ⟨h1, h2, _, o, ho, hno⟩
  · refine Or.inr ⟨s, h1, h3, ?_⟩
    -- which `s`: the one the response carries
    unfold completeSubscribe at h3 ⊢
    cases hp : r.payload with
    | error e =>
      simp only [hp] at h3
      have := congrArg (fun m => m.subs) h3
      simp only [(releaseReservedSlot_others st.mgr uid).1] at this
      exact absurd this (by intro e; have := congrArg List.length e; simp at this)
    | result raw =>
      simp only [hp] at h3 ⊢
      cases hd : decodeSubId raw with
      | none =>
        simp only [hd] at h3
        have := congrArg (fun m => m.subs) h3
        simp only [(releaseReservedSlot_others st.mgr uid).1] at this
        exact absurd this (by intro e; have := congrArg List.length e; simp at this)
      | some s' =>
        simp only [hd] at h3 ⊢
        cases hins : st.mgr.insertSubscription r.id uid s' st.chans.length um with
        | none =>
          simp only [hins] at h3
          have := congrArg (fun m => m.subs) h3
          simp only [(releaseReservedSlot_others st.mgr uid).1] at this
          exact absurd this (by intro e; have := congrArg List.length e; simp at this)
        | some m' =>
          obtain ⟨_, _, e⟩ := insertSubscription_spec _ _ _ _ _ _ _ hins
          simp only [hins, hgone, Bool.false_eq_true, if_false, abandonedSubscribe, modChan_mgr] at h3 ⊢
          have hs : s' = s := by
            have h4 : m' = _ := h3
            rw [e] at h4
            have := congrArg (fun m => m.subs) h4
            simp at this
            exact this
          subst hs
          rfl
  · refine Or.inl ⟨h1, h2, o, ?_, hno⟩
    rw [ho]; unfold Core.completeIfAlive; simp [hgone]

/-- `{"jsonrpc":"2.0","id":0,"error":{"code":-32000,"message":"no"}}` refuses subscribe 0 whose caller has gone -/
def refusedAfterAbandon : List Step := [.newSubscribe tSubM tUnsubM, .sendTask 0, .abandon 0, .recv tRefuse]

example : (run (St.init 2 false) (refusedAfterAbandon.take 3)).1.core.mgr.sizes = (2, 0, 0, 0) ∧
    (run (St.init 2 false) refusedAfterAbandon).1.core.mgr.sizes = (0, 0, 0, 0) ∧
    quiescentB (run (St.init 2 false) refusedAfterAbandon).1 (run (St.init 2 false) refusedAfterAbandon).2 = true ∧
    (step (run (St.init 2 false) refusedAfterAbandon).1 (.recv tAck1)).fatal = some (.notPending (.num 1)) := by decide

end Jrpc.Client
