/-
  C18 — client: bookkeeping returns to empty.

  `Quiescent st trace` is a predicate on the **ghost history** only (Proofs/ClientQuiesceLemmas.lean):
  every front-end operation issued so far has been finished exactly once in the effect trace
  (`complete`, or `dropped` when its future had been abandoned), and every stream ever opened is over
  (`Ended`: closed by the server or unsubscribed / dropped / lag-closed, and an unsubscribe once sent
  has been acknowledged; a method handler removed).  It does not mention the four tables.
-/
import JrpcVerif.Proofs.ClientQuiesceLemmas
namespace Jrpc.Client
open Jrpc

/-! ### C18.1 — at quiescence nothing is left -/

/-- full statement: at quiescence all four tables are empty -/
def c18_empty_at_quiescence_statement : Prop :=
  ∀ (cap : Nat) (strIds : Bool) (steps : List Step),
    Quiescent (run (St.init cap strIds) steps).1 (run (St.init cap strIds) steps).2 →
    (run (St.init cap strIds) steps).1.core.mgr.requests = [] ∧ (run (St.init cap strIds) steps).1.core.mgr.subs = [] ∧
    (run (St.init cap strIds) steps).1.core.mgr.batches = [] ∧ (run (St.init cap strIds) steps).1.core.mgr.handlers = []

theorem ended_sub_false (x : Chan) (ho : isSubOwner x.owner = true) (h1 : x.closedByServer = false)
    (h2 : x.unsubscribed = false) (he : Ended x) : False := by
  obtain ⟨_, he⟩ := he
  cases hx : x.owner with
  | sub s => simp [hx, h1, h2] at he
  | method m => simp [hx, isSubOwner] at ho

theorem ended_unacked_false (x : Chan) (h1 : x.unsubscribed = true) (h2 : x.acked = false) (he : Ended x) : False := by
  have := he.1 h1
  rw [h2] at this; simp at this

/-- **full strength**: for every history of the client — any sequence of atomic steps from a fresh
client — at quiescence all four tables are empty -/
theorem c18_empty_at_quiescence : c18_empty_at_quiescence_statement := by
  intro cap strIds steps hq
  have hr : Reachable (run (St.init cap strIds) steps).1 := ⟨cap, strIds, steps, rfl⟩
  have hlive := quiescent_no_live cap strIds steps hq
  generalize (run (St.init cap strIds) steps).1 = st at *
  have hku := sku_reachable st hr
  have ht := (stinv_reachable st hr).1
  have hrt := (sinv_reachable st hr).routes
  have hnoTicket : ∀ p ∈ st.core.mgr.requests, ∀ k, kindOp p.2 = some k → False := by
    intro p hp k hk
    have := reqCount_pos_of_mem k _ p hp hk
    have h0 := hlive k
    simp only [liveCount, coreCount] at h0; omega
  have hreq : st.core.mgr.requests = [] := by
    cases hreqs : st.core.mgr.requests with
    | nil => rfl
    | cons e rest =>
      exfalso
      have hp : e ∈ st.core.mgr.requests := by rw [hreqs]; exact List.mem_cons_self
      obtain ⟨k, kd⟩ := e
      have ha := mem_alookup_of_nodup k kd _ hp hku.requests
      cases kd with
      | pendingCall t =>
        cases t with
        | some t => exact hnoTicket _ hp t.op rfl
        | none =>
          rcases ht.slot k ha with ⟨sid, t, um, b⟩ | ⟨sid, c, um, b⟩ | ⟨c, x, c1, c2, c3, _⟩
          · exact hnoTicket _ (alookup_mem _ _ _ b) t.op rfl
          · obtain ⟨x, hx, _, h3, h4, _, h6, _⟩ := ht.live.sub sid k c um b
            exact ended_sub_false x h6 h4 h3 (hq.2 x (List.mem_of_getElem? hx))
          · exact ended_unacked_false x c2 c3 (hq.2 x (List.mem_of_getElem? c1))
      | pendingSub uid t um => exact hnoTicket _ hp t.op rfl
      | sub uid c um =>
        obtain ⟨x, hx, _, h3, h4, _, h6, _⟩ := ht.live.sub k uid c um ha
        exact ended_sub_false x h6 h4 h3 (hq.2 x (List.mem_of_getElem? hx))
      | pendingUnsub rid c =>
        obtain ⟨x, hx, h2, h3, _⟩ := ht.unsub.unsub k rid c ha
        exact ended_unacked_false x h2 h3 (hq.2 x (List.mem_of_getElem? hx))
  refine ⟨hreq, ?_, ?_, ?_⟩
  · cases hs : st.core.mgr.subs with
    | nil => rfl
    | cons e rest =>
      exfalso
      obtain ⟨s, rid⟩ := e
      have ha : alookup s st.core.mgr.subs = some rid := by rw [hs]; exact alookup_cons_self _ _ _
      obtain ⟨uid, c, um, h1, _⟩ := hrt.subs s rid ha
      rw [hreq] at h1; simp [alookup] at h1
  · cases hb : st.core.mgr.batches with
    | nil => rfl
    | cons e rest =>
      exfalso
      have := batCount_pos_of_mem st.core.mgr.batches e (by rw [hb]; exact List.mem_cons_self)
      have h0 := hlive e.2.op
      simp only [liveCount, coreCount] at h0; omega
  · cases hh : st.core.mgr.handlers with
    | nil => rfl
    | cons e rest =>
      exfalso
      obtain ⟨m, c⟩ := e
      have ha : alookup m st.core.mgr.handlers = some c := by rw [hh]; exact alookup_cons_self _ _ _
      obtain ⟨x, hx, h2, h3⟩ := ht.live.handler m c ha
      have he := (hq.2 x (List.mem_of_getElem? hx)).2
      simp [h3, h2] at he

/-! ### witnesses: the pre-fix leak histories (F-10 a, b, c) are quiescent and now leave nothing -/

/-- `{"jsonrpc":"2.0","id":0,"error":{"code":-32000,"message":"no"}}` -/
def tRefuse : Text := [123, 34, 106, 115, 111, 110, 114, 112, 99, 34, 58, 34, 50, 46, 48, 34, 44, 34, 105, 100, 34, 58, 48, 44, 34, 101, 114, 114, 111, 114, 34, 58, 123, 34, 99, 111, 100, 101, 34, 58, 45, 51, 50, 48, 48, 48, 44, 34, 109, 101, 115, 115, 97, 103, 101, 34, 58, 34, 110, 111, 34, 125, 125]
/-- `{"jsonrpc":"2.0","id":0,"result":"S"}` -/
def tAccept0 : Text := [123, 34, 106, 115, 111, 110, 114, 112, 99, 34, 58, 34, 50, 46, 48, 34, 44, 34, 105, 100, 34, 58, 48, 44, 34, 114, 101, 115, 117, 108, 116, 34, 58, 34, 83, 34, 125]
/-- `{"jsonrpc":"2.0","id":1,"result":true}` -/
def tAck1 : Text := [123, 34, 106, 115, 111, 110, 114, 112, 99, 34, 58, 34, 50, 46, 48, 34, 44, 34, 105, 100, 34, 58, 49, 44, 34, 114, 101, 115, 117, 108, 116, 34, 58, 116, 114, 117, 101, 125]
/-- `{"jsonrpc":"2.0","method":"sub","params":{"subscription":"S","error":"bye"}}` -/
def tCloseS : Text := [123, 34, 106, 115, 111, 110, 114, 112, 99, 34, 58, 34, 50, 46, 48, 34, 44, 34, 109, 101, 116, 104, 111, 100, 34, 58, 34, 115, 117, 98, 34, 44, 34, 112, 97, 114, 97, 109, 115, 34, 58, 123, 34, 115, 117, 98, 115, 99, 114, 105, 112, 116, 105, 111, 110, 34, 58, 34, 83, 34, 44, 34, 101, 114, 114, 111, 114, 34, 58, 34, 98, 121, 101, 34, 125, 125]
/-- `{"jsonrpc":"2.0","id":0,"result":7}` -/
def tCallAns : Text := [123, 34, 106, 115, 111, 110, 114, 112, 99, 34, 58, 34, 50, 46, 48, 34, 44, 34, 105, 100, 34, 58, 48, 44, 34, 114, 101, 115, 117, 108, 116, 34, 58, 55, 125]

def tSubM : Text := [115, 117, 98]
def tUnsubM : Text := [117, 110, 115, 117, 98]

/-- (a) subscribe refused -/
def leakRefused : List Step := [.newSubscribe tSubM tUnsubM, .sendTask 0, .recv tRefuse]
/-- (b) subscribe accepted, explicit unsubscribe, acknowledged -/
def leakUnsubscribed : List Step :=
  [.newSubscribe tSubM tUnsubM, .sendTask 0, .recv tAccept0, .unsubscribeStream 0, .sendTask 0, .recv tAck1]
/-- (c) subscribe accepted, closed by the server -/
def leakServerClosed : List Step := [.newSubscribe tSubM tUnsubM, .sendTask 0, .recv tAccept0, .recv tCloseS]
/-- (d) subscribe future abandoned, then accepted: the unsubscribe is written (`sendTask`) and acknowledged -/
def leakAbandoned : List Step :=
  [.newSubscribe tSubM tUnsubM, .sendTask 0, .abandon 0, .recv tAccept0, .sendTask 0, .recv tAck1]

/-- what was handed to the transport -/
def wiresIn : List Effect → List Text
  | [] => []
  | .wire t :: r => t :: wiresIn r
  | _ :: r => wiresIn r

/-- decidable rendering of `Quiescent` for concrete histories -/
def quiescentB (st : St) (trace : List Effect) : Bool :=
  (List.range st.nextOp).all (fun k => compCount k trace == 1) &&
  st.core.chans.all (fun ch => (!ch.unsubscribed || ch.acked) && match ch.owner with
    | .sub _ => ch.closedByServer || ch.unsubscribed
    | .method _ => !ch.senderAlive)

theorem quiescentB_sound (st : St) (trace : List Effect) (h : quiescentB st trace = true) : Quiescent st trace := by
  unfold quiescentB at h
  simp only [Bool.and_eq_true, List.all_eq_true, List.mem_range, beq_iff_eq] at h
  refine ⟨fun k hk => h.1 k hk, fun ch hc => ?_⟩
  have := h.2 ch hc
  unfold Ended
  refine ⟨?_, ?_⟩
  · intro hu; have := this.1; simp [hu] at this; exact this
  · cases ho : ch.owner with
    | sub s => have := this.2; simp [ho] at this ⊢; exact this
    | method m => have := this.2; simp [ho] at this ⊢; exact this

example : quiescentB (run (St.init 2 false) leakRefused).1 (run (St.init 2 false) leakRefused).2 = true ∧
    (run (St.init 2 false) leakRefused).1.core.mgr.sizes = (0, 0, 0, 0) := by decide
example : quiescentB (run (St.init 2 false) leakUnsubscribed).1 (run (St.init 2 false) leakUnsubscribed).2 = true ∧
    (run (St.init 2 false) leakUnsubscribed).1.core.mgr.sizes = (0, 0, 0, 0) := by decide
example : quiescentB (run (St.init 2 false) leakServerClosed).1 (run (St.init 2 false) leakServerClosed).2 = true ∧
    (run (St.init 2 false) leakServerClosed).1.core.mgr.sizes = (0, 0, 0, 0) := by decide
example : quiescentB (run (St.init 2 false) leakAbandoned).1 (run (St.init 2 false) leakAbandoned).2 = true ∧
    (run (St.init 2 false) leakAbandoned).1.core.mgr.sizes = (0, 0, 0, 0) ∧
    wiresIn ((run (St.init 2 false) leakAbandoned).2) = [encodeRequest { id := .num 0, method := tSubM, params := none },
                                                          unsubRaw (.num 1) tUnsubM (.str [83])] := by decide
-- while the unsubscribe is in flight the marker and the `PendingUnsubscribe` slot are there — and the
-- history is not quiescent (the acknowledgement is still owed)
example : quiescentB (run (St.init 2 false) (leakUnsubscribed.take 5)).1 (run (St.init 2 false) (leakUnsubscribed.take 5)).2 = false ∧
    (run (St.init 2 false) (leakUnsubscribed.take 5)).1.core.mgr.sizes = (2, 0, 0, 0) := by decide
-- a call, answered — quiescent and empty
example : quiescentB (run (St.init 2 false) [.newCall tM none, .sendTask 0, .recv tCallAns]).1
      (run (St.init 2 false) [.newCall tM none, .sendTask 0, .recv tCallAns]).2 = true ∧
    (run (St.init 2 false) [.newCall tM none, .sendTask 0, .recv tCallAns]).1.core.mgr.sizes = (0, 0, 0, 0) := by decide

/-! ### C18.2 — list length is `HashMap::len`; every table entry belongs to open work -/

/-- keys of each table are pairwise distinct in every reachable state, so the list lengths reported
by the model are the `len()` of the real hash maps -/
theorem c18_keys_unique (st : St) (hr : Reachable st) :
    (akeys st.core.mgr.requests).Nodup ∧ (akeys st.core.mgr.subs).Nodup ∧
    (akeys st.core.mgr.batches).Nodup ∧ (akeys st.core.mgr.handlers).Nodup :=
  ⟨(sku_reachable st hr).requests, (sku_reachable st hr).subs, (sku_reachable st hr).batches, (sku_reachable st hr).handlers⟩

/-- every entry belongs to work that is still open (at every moment, not only at quiescence): a
subscription entry to a channel neither closed by the server nor unsubscribed; a reverse-index
entry to such a subscription entry; a handler entry to a channel that still has its sender; a bare
`PendingMethodCall(None)` slot to a pending subscribe, an active subscription or an unsubscribe not
yet acknowledged; a `PendingUnsubscribe` entry to an unsubscribe not yet acknowledged -/
theorem c18_tables_hold_open_work (st : St) (hr : Reachable st) :
    (∀ id uid c um, alookup id st.core.mgr.requests = some (.sub uid c um) →
      ∃ x, st.core.chans[c]? = some x ∧ x.closedByServer = false ∧ x.unsubscribed = false ∧ x.senderAlive = true) ∧
    (∀ s rid, alookup s st.core.mgr.subs = some rid → ∃ uid c um, alookup rid st.core.mgr.requests = some (.sub uid c um)) ∧
    (∀ m c, alookup m st.core.mgr.handlers = some c → ∃ x, st.core.chans[c]? = some x ∧ x.senderAlive = true) ∧
    (∀ k, alookup k st.core.mgr.requests = some (.pendingCall none) →
      (∃ sid t um, alookup sid st.core.mgr.requests = some (.pendingSub k t um)) ∨
      (∃ sid c um, alookup sid st.core.mgr.requests = some (.sub k c um)) ∨
      (∃ (c : ChanId) (x : Chan), st.core.chans[c]? = some x ∧ x.unsubscribed = true ∧ x.acked = false ∧ x.rid = k)) ∧
    (∀ k rid c, alookup k st.core.mgr.requests = some (.pendingUnsub rid c) →
      ∃ x, st.core.chans[c]? = some x ∧ x.unsubscribed = true ∧ x.acked = false) := by
  have ht := (stinv_reachable st hr).1
  have hrt := (sinv_reachable st hr).routes
  refine ⟨?_, ?_, ?_, ht.slot, ?_⟩
  · intro id uid c um h
    obtain ⟨x, h1, _, h3, h4, h5, _⟩ := ht.live.sub id uid c um h
    exact ⟨x, h1, h4, h3, h5⟩
  · intro s rid h
    obtain ⟨uid, c, um, h1, _⟩ := hrt.subs s rid h
    exact ⟨uid, c, um, h1⟩
  · intro m c h
    obtain ⟨x, h1, h2, _⟩ := ht.live.handler m c h
    exact ⟨x, h1, h2⟩
  · intro k rid c h
    obtain ⟨x, h1, h2, h3, _⟩ := ht.unsub.unsub k rid c h
    exact ⟨x, h1, h2, h3⟩

/-! ### C18.3 — ids of finished work cannot capture a later message -/

/-- once a call has been completed, its id is no key of the pending table any more: a later response
with that id completes nothing and is rejected (`NotPendingRequest`) -/
theorem c18_no_capture_call (st st' : Core) (r r' : Response) (t : Ticket) (effs : List Effect)
    (hc : alookup r.id st.mgr.requests = some (.pendingCall (some t)))
    (h : processSingleResponse st r = .ok (st', effs)) (hid : r'.id = r.id) :
    processSingleResponse st' r' = .error (.notPending r'.id) := by
  have hs : st.mgr.requestStatus r.id = .pendingCall := by unfold Mgr.requestStatus; rw [hc]
  have hcp : st.mgr.completePendingCall r.id = some ({ st.mgr with requests := aerase r.id st.mgr.requests }, some t) := by
    unfold Mgr.completePendingCall; rw [hc]
  unfold processSingleResponse at h
  simp only [hs, hcp] at h
  simp at h
  obtain ⟨e1, _⟩ := h
  subst e1
  unfold processSingleResponse
  have : ({ st with mgr := { st.mgr with requests := aerase r.id st.mgr.requests } } : Core).mgr.requestStatus r'.id = .invalid := by
    unfold Mgr.requestStatus
    simp only [hid, alookup_aerase_self]
  rw [this]

/-- at quiescence **every** response is rejected: no id of finished work can capture a later message -/
theorem c18_no_capture_at_quiescence (cap : Nat) (strIds : Bool) (steps : List Step)
    (hq : Quiescent (run (St.init cap strIds) steps).1 (run (St.init cap strIds) steps).2) (r : Response) :
    processSingleResponse (run (St.init cap strIds) steps).1.core r = .error (.notPending r.id) := by
  have h := (c18_empty_at_quiescence cap strIds steps hq).1
  unfold processSingleResponse Mgr.requestStatus
  rw [h]
  simp [alookup]

/-- pre-fix the reserved slot of a refused subscribe swallowed one stray response; now it is rejected -/
example : (step (run (St.init 2 false) leakRefused).1 (.recv tAck1)).fatal = some (.notPending (.num 1)) := by
  decide

end Jrpc.Client
