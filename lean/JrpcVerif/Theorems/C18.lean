/-
  C18 — client: bookkeeping returns to empty.

  `Quiescent st trace` is a predicate on the **ghost history** only (Proofs/ClientQuiesceLemmas.lean):
  every front-end operation issued so far has been finished exactly once in the effect trace
  (`complete` or `dropped`), and every stream ever opened is over (`Ended`: closed by the server, or
  unsubscribed/dropped/lag-closed **and** the unsubscribe acknowledged; handler removed).  It does
  not mention the four tables.
-/
import JrpcVerif.Proofs.ClientQuiesceLemmas
namespace Jrpc.Client
open Jrpc

/-! ### C18.1 — what is left at quiescence -/

/-- full statement: at quiescence all four tables are empty -/
def c18_empty_at_quiescence_statement : Prop :=
  ∀ (cap : Nat) (strIds : Bool) (steps : List Step),
    Quiescent (run (St.init cap strIds) steps).1 (run (St.init cap strIds) steps).2 →
    (run (St.init cap strIds) steps).1.core.mgr.requests = [] ∧ (run (St.init cap strIds) steps).1.core.mgr.subs = [] ∧
    (run (St.init cap strIds) steps).1.core.mgr.batches = [] ∧ (run (St.init cap strIds) steps).1.core.mgr.handlers = []

theorem ended_sub_false (x : Chan) (ho : isSubOwner x.owner = true) (h1 : x.closedByServer = false)
    (h2 : x.unsubscribed = false) (he : Ended x) : False := by
  unfold Ended at he
  cases hx : x.owner with
  | sub s => simp [hx, h1, h2] at he
  | method m => simp [hx, isSubOwner] at ho

/-- Proved for **every** history of the current code: at quiescence three tables are empty and the
`requests` table holds nothing but `PendingMethodCall(None)` slots (the F-10 residue) -/
theorem c18_residue (cap : Nat) (strIds : Bool) (steps : List Step)
    (hq : Quiescent (run (St.init cap strIds) steps).1 (run (St.init cap strIds) steps).2) :
    (run (St.init cap strIds) steps).1.core.mgr.batches = [] ∧ (run (St.init cap strIds) steps).1.core.mgr.subs = [] ∧
    (run (St.init cap strIds) steps).1.core.mgr.handlers = [] ∧
    ∀ p ∈ (run (St.init cap strIds) steps).1.core.mgr.requests, p.2 = .pendingCall none := by
  have hr : Reachable (run (St.init cap strIds) steps).1 := ⟨cap, strIds, steps, rfl⟩
  have hlive := quiescent_no_live cap strIds steps hq
  generalize (run (St.init cap strIds) steps).1 = st at *
  have hku := sku_reachable st hr
  have hl := slive_reachable st hr
  have hrt := (sinv_reachable st hr).routes
  have hreq : ∀ p ∈ st.core.mgr.requests, p.2 = .pendingCall none := by
    intro p hp
    obtain ⟨k, kd⟩ := p
    cases kd with
    | pendingCall t =>
      cases t with
      | none => rfl
      | some t =>
        have := reqCount_pos_of_mem t.op _ _ hp rfl
        have h0 := hlive t.op
        simp only [liveCount, coreCount] at h0; omega
    | pendingSub uid t um =>
      have := reqCount_pos_of_mem t.op _ _ hp rfl
      have h0 := hlive t.op
      simp only [liveCount, coreCount] at h0; omega
    | sub uid c um =>
      exfalso
      have ha := mem_alookup_of_nodup k _ _ hp hku.requests
      obtain ⟨x, hx, _, h3, h4, _, h6, _⟩ := hl.sub k uid c um ha
      exact ended_sub_false x h6 h4 h3 (hq.2 x (List.mem_of_getElem? hx))
  refine ⟨?_, ?_, ?_, hreq⟩
  · cases hb : st.core.mgr.batches with
    | nil => rfl
    | cons e rest =>
      exfalso
      have := batCount_pos_of_mem st.core.mgr.batches e (by rw [hb]; exact List.mem_cons_self)
      have h0 := hlive e.2.op
      simp only [liveCount, coreCount] at h0; omega
  · cases hs : st.core.mgr.subs with
    | nil => rfl
    | cons e rest =>
      exfalso
      obtain ⟨s, rid⟩ := e
      have ha : alookup s st.core.mgr.subs = some rid := by rw [hs]; exact alookup_cons_self _ _ _
      obtain ⟨uid, c, um, h1, _⟩ := hrt.subs s rid ha
      have := hreq _ (alookup_mem _ _ _ h1)
      simp at this
  · cases hh : st.core.mgr.handlers with
    | nil => rfl
    | cons e rest =>
      exfalso
      obtain ⟨m, c⟩ := e
      have ha : alookup m st.core.mgr.handlers = some c := by rw [hh]; exact alookup_cons_self _ _ _
      obtain ⟨x, hx, h2, h3⟩ := hl.handler m c ha
      have he := hq.2 x (List.mem_of_getElem? hx)
      unfold Ended at he
      simp [h3, h2] at he

/-- The full conclusion under an explicit decidable hypothesis on the history: no subscribe was
ever issued (calls, batches, notifications, method handlers in any number and any interleaving) -/
theorem c18_empty_at_quiescence_partial (cap : Nat) (strIds : Bool) (steps : List Step)
    (hns : ∀ s ∈ steps, noSubscribe s = true)
    (hq : Quiescent (run (St.init cap strIds) steps).1 (run (St.init cap strIds) steps).2) :
    (run (St.init cap strIds) steps).1.core.mgr.requests = [] ∧ (run (St.init cap strIds) steps).1.core.mgr.subs = [] ∧
    (run (St.init cap strIds) steps).1.core.mgr.batches = [] ∧ (run (St.init cap strIds) steps).1.core.mgr.handlers = [] := by
  obtain ⟨h1, h2, h3, h4⟩ := c18_residue cap strIds steps hq
  have hsf := (subfree_run steps (St.init cap strIds) hns
    ⟨by intro p hp; simp [St.init] at hp, by intro m hm; simp [St.init] at hm⟩).1
  refine ⟨?_, h2, h1, h3⟩
  cases hr : (run (St.init cap strIds) steps).1.core.mgr.requests with
  | nil => rfl
  | cons e rest =>
    exfalso
    have hm : e ∈ (run (St.init cap strIds) steps).1.core.mgr.requests := by rw [hr]; exact List.mem_cons_self
    obtain ⟨t, ht⟩ := hsf e hm
    rw [h4 e hm] at ht
    simp at ht

/-! ### witnesses: the three quiescent leak paths of the current code (F-10 a, b, c) -/

/-- `{"jsonrpc":"2.0","id":0,"error":{"code":-32000,"message":"no"}}` -/
def tRefuse : Text := [123, 34, 106, 115, 111, 110, 114, 112, 99, 34, 58, 34, 50, 46, 48, 34, 44, 34, 105, 100, 34, 58, 48, 44, 34, 101, 114, 114, 111, 114, 34, 58, 123, 34, 99, 111, 100, 101, 34, 58, 45, 51, 50, 48, 48, 48, 44, 34, 109, 101, 115, 115, 97, 103, 101, 34, 58, 34, 110, 111, 34, 125, 125]
/-- `{"jsonrpc":"2.0","id":0,"result":"S"}` -/
def tAccept0 : Text := [123, 34, 106, 115, 111, 110, 114, 112, 99, 34, 58, 34, 50, 46, 48, 34, 44, 34, 105, 100, 34, 58, 48, 44, 34, 114, 101, 115, 117, 108, 116, 34, 58, 34, 83, 34, 125]
/-- `{"jsonrpc":"2.0","id":1,"result":true}` -/
def tAck1 : Text := [123, 34, 106, 115, 111, 110, 114, 112, 99, 34, 58, 34, 50, 46, 48, 34, 44, 34, 105, 100, 34, 58, 49, 44, 34, 114, 101, 115, 117, 108, 116, 34, 58, 116, 114, 117, 101, 125]
/-- `{"jsonrpc":"2.0","method":"sub","params":{"subscription":"S","error":"bye"}}` -/
def tCloseS : Text := [123, 34, 106, 115, 111, 110, 114, 112, 99, 34, 58, 34, 50, 46, 48, 34, 44, 34, 109, 101, 116, 104, 111, 100, 34, 58, 34, 115, 117, 98, 34, 44, 34, 112, 97, 114, 97, 109, 115, 34, 58, 123, 34, 115, 117, 98, 115, 99, 114, 105, 112, 116, 105, 111, 110, 34, 58, 34, 83, 34, 44, 34, 101, 114, 114, 111, 114, 34, 58, 34, 98, 121, 101, 34, 125, 125]
/-- `{"jsonrpc":"2.0","id":0,"result":7}` -/
def tCallAns : Text := [123, 34, 106, 115, 111, 110, 114, 112, 99, 34, 58, 34, 50, 46, 48, 34, 44, 34, 105, 100, 34, 58, 48, 44, 34, 114, 101, 115, 117, 108, 116, 34, 58, 55, 125]

def tSubM : Text := [115, 117, 98]
def tUnsubM : Text := [117, 110, 115, 117, 98]

/-- (a) subscribe refused -/
def leakRefused : List Step := [.newSubscribe tSubM tUnsubM, .sendTask 0, .recv tRefuse]
/-- (b) subscribe accepted, explicit unsubscribe, drained, acknowledged -/
def leakUnsubscribed : List Step :=
  [.newSubscribe tSubM tUnsubM, .sendTask 0, .recv tAccept0, .unsubscribeStream 0, .sendTask 0, .recv tAck1]
/-- (c) subscribe accepted, closed by the server -/
def leakServerClosed : List Step := [.newSubscribe tSubM tUnsubM, .sendTask 0, .recv tAccept0, .recv tCloseS]

/-- decidable rendering of `Quiescent` for concrete histories -/
def quiescentB (st : St) (trace : List Effect) : Bool :=
  (List.range st.nextOp).all (fun k => compCount k trace == 1) &&
  st.core.chans.all (fun ch => match ch.owner with
    | .sub _ => ch.closedByServer || (ch.unsubscribed && ch.acked)
    | .method _ => !ch.senderAlive)

theorem quiescentB_sound (st : St) (trace : List Effect) (h : quiescentB st trace = true) : Quiescent st trace := by
  unfold quiescentB at h
  simp only [Bool.and_eq_true, List.all_eq_true, List.mem_range, beq_iff_eq] at h
  refine ⟨fun k hk => h.1 k hk, fun ch hc => ?_⟩
  have := h.2 ch hc
  unfold Ended
  cases ho : ch.owner with
  | sub s => simp [ho] at this ⊢; exact this
  | method m => simp [ho] at this ⊢; exact this

example : quiescentB (run (St.init 2 false) leakRefused).1 (run (St.init 2 false) leakRefused).2 = true ∧
    (run (St.init 2 false) leakRefused).1.core.mgr.sizes = (1, 0, 0, 0) := by decide
example : quiescentB (run (St.init 2 false) leakUnsubscribed).1 (run (St.init 2 false) leakUnsubscribed).2 = true ∧
    (run (St.init 2 false) leakUnsubscribed).1.core.mgr.sizes = (1, 0, 0, 0) := by decide
example : quiescentB (run (St.init 2 false) leakServerClosed).1 (run (St.init 2 false) leakServerClosed).2 = true ∧
    (run (St.init 2 false) leakServerClosed).1.core.mgr.sizes = (1, 0, 0, 0) := by decide

/-- the full statement is false of the code as it is -/
theorem c18_empty_at_quiescence_statement_false : ¬ c18_empty_at_quiescence_statement := by
  intro h
  have hq : Quiescent (run (St.init 2 false) leakRefused).1 (run (St.init 2 false) leakRefused).2 :=
    quiescentB_sound _ _ (by decide)
  have := (h 2 false leakRefused hq).1
  revert this
  decide

-- non-vacuity of the partial theorem: a call, answered — quiescent and empty
example : quiescentB (run (St.init 2 false) [.newCall tM none, .sendTask 0, .recv tCallAns]).1
      (run (St.init 2 false) [.newCall tM none, .sendTask 0, .recv tCallAns]).2 = true ∧
    (run (St.init 2 false) [.newCall tM none, .sendTask 0, .recv tCallAns]).1.core.mgr.sizes = (0, 0, 0, 0) := by decide

/-! ### C18.2 — list length is `HashMap::len`; nothing finished occupies a table -/

/-- keys of each table are pairwise distinct in every reachable state, so the list lengths reported
by the model are the `len()` of the real hash maps -/
theorem c18_keys_unique (st : St) (hr : Reachable st) :
    (akeys st.core.mgr.requests).Nodup ∧ (akeys st.core.mgr.subs).Nodup ∧
    (akeys st.core.mgr.batches).Nodup ∧ (akeys st.core.mgr.handlers).Nodup :=
  ⟨(sku_reachable st hr).requests, (sku_reachable st hr).subs, (sku_reachable st hr).batches, (sku_reachable st hr).handlers⟩

/-- every table entry other than a `PendingMethodCall(None)` slot belongs to work that is still open:
a waiting ticket, a subscription whose channel is neither closed by the server nor unsubscribed, a
handler whose channel still has its sender -/
theorem c18_tables_hold_open_work (st : St) (hr : Reachable st) :
    (∀ id uid c um, alookup id st.core.mgr.requests = some (.sub uid c um) →
      ∃ x, st.core.chans[c]? = some x ∧ x.closedByServer = false ∧ x.unsubscribed = false ∧ x.senderAlive = true) ∧
    (∀ s rid, alookup s st.core.mgr.subs = some rid → ∃ uid c um, alookup rid st.core.mgr.requests = some (.sub uid c um)) ∧
    (∀ m c, alookup m st.core.mgr.handlers = some c → ∃ x, st.core.chans[c]? = some x ∧ x.senderAlive = true) := by
  have hl := slive_reachable st hr
  have hrt := (sinv_reachable st hr).routes
  refine ⟨?_, ?_, ?_⟩
  · intro id uid c um h
    obtain ⟨x, h1, _, h3, h4, h5, _⟩ := hl.sub id uid c um h
    exact ⟨x, h1, h4, h3, h5⟩
  · intro s rid h
    obtain ⟨uid, c, um, h1, _⟩ := hrt.subs s rid h
    exact ⟨uid, c, um, h1⟩
  · intro m c h
    obtain ⟨x, h1, h2, _⟩ := hl.handler m c h
    exact ⟨x, h1, h2⟩

/-! ### C18.3 — ids of finished calls cannot capture a later message -/

/-- once a call has been completed, its id is no key of the pending table any more: a later response
with that id completes nothing and is rejected (`NotPendingRequest`) -/
theorem c18_no_capture_call (st st' : Core) (r r' : Response) (t : Ticket) (effs : List Effect)
    (hc : alookup r.id st.mgr.requests = some (.pendingCall (some t)))
    (h : processSingleResponse st r = .ok (st', effs)) (hid : r'.id = r.id) :
    processSingleResponse st' r' = .error (.notPending r'.id) := by
  have hs : st.mgr.requestStatus r.id = .pendingCall := by unfold Mgr.requestStatus; rw [hc]
  have hcp : st.mgr.completePendingCall r.id = some ({ st.mgr with requests := aerase r.id st.mgr.requests }, some t) := by
    unfold Mgr.completePendingCall; rw [hc]
  unfold processSingleResponse at h
  simp only [hs, hcp] at h
  simp at h
  obtain ⟨e1, _⟩ := h
  subst e1
  unfold processSingleResponse
  have : ({ st with mgr := { st.mgr with requests := aerase r.id st.mgr.requests } } : Core).mgr.requestStatus r'.id = .invalid := by
    unfold Mgr.requestStatus
    simp only [hid, alookup_aerase_self]
  rw [this]

/-- in the current code the leftover slots **do** capture: a stray response bearing the reserved
unsubscribe id of a refused subscription is swallowed silently instead of being rejected -/
example : (step (run (St.init 2 false) leakRefused).1 (.recv tAck1)).fatal = none ∧
    (step (run (St.init 2 false) leakRefused).1 (.recv tAck1)).effs = [] ∧
    (step (step (run (St.init 2 false) leakRefused).1 (.recv tAck1)).st (.recv tAck1)).fatal = some (.notPending (.num 1)) := by
  decide

end Jrpc.Client
