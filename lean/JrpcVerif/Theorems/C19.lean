/-
  C19 — HTTP: only JSON POSTs reach RPC; body chunking never changes the answer.
  `c19_gate*` use the content-type list GENERATED from server/src/transport/http.rs on every run.
-/
import JrpcVerif.Theorems.C07
import JrpcVerif.Gen.ContentTypes
namespace Jrpc.Srv
open Jrpc Jrpc.Gen

theorem c19_translator_ok : contentTypesTranslatorOk = true := by decide

/-- **C19.1** — any method other than POST is answered 405, POST with a content type outside the
accepted list 415; in both cases no handler runs.  A request is handed on iff POST ∧ accepted type. -/
theorem c19_gate (cfg : Cfg) (method : Text) (ct : Option Text) (cl : Option Nat) (chunks : List Text) :
    (method ≠ tPOST → (httpCall cfg method ct cl chunks).status = 405 ∧ (httpCall cfg method ct cl chunks).invoked = []) ∧
    (method = tPOST → isJsonContentType ct = false →
        (httpCall cfg method ct cl chunks).status = 415 ∧ (httpCall cfg method ct cl chunks).invoked = []) ∧
    ((httpCall cfg method ct cl chunks).status ≠ 405 ∧ (httpCall cfg method ct cl chunks).status ≠ 415 ↔
        method = tPOST ∧ isJsonContentType ct = true) := by
  unfold httpCall
  by_cases hm : method = tPOST
  · subst hm
    simp only [bne_self_eq_false, Bool.false_eq_true, ↓reduceIte]
    by_cases hct : isJsonContentType ct = true
    · simp only [hct, Bool.not_true, Bool.false_eq_true, ↓reduceIte]
      refine ⟨by simp, by simp, ?_⟩
      cases readBody cl chunks cfg.maxReq <;> simp
    · simp [hct]
  · have : (method != tPOST) = true := by simp [hm]
    simp [this, hm]

/-- the accepted spellings are matched ASCII-case-insensitively: accepting depends only on the
lower-cased value -/
theorem c19_case_insensitive (a b : Text) (h : a.map lowerAscii = b.map lowerAscii) :
    isJsonContentType (some a) = isJsonContentType (some b) := by
  simp [isJsonContentType, h]

/-! ### chunk independence -/

/-- the verdict of `read_body` as a function of the look-ahead result on the whole text -/
def sniffVerdict (sn : Sniff) (whole : Text) : Body :=
  match sn with
  | .found idx s => .ok (whole.drop idx) s
  | _ => .malformed

theorem sniff_found_lt : ∀ (w : Nat) (a : Text) (idx : Nat) (s : Bool),
    sniffChunk w a = .found idx s → idx < a.length := by
  intro w
  induction w with
  | zero => intro a idx s h; cases a <;> simp [sniffChunk] at h
  | succ w ih =>
    intro a idx s h
    cases a with
    | nil => simp [sniffChunk] at h
    | cons c r =>
      simp only [sniffChunk] at h
      split at h
      · cases hr : sniffChunk w r with
        | found i s' =>
          rw [hr] at h; simp [Sniff.succ] at h
          have := ih r i s' hr
          simp; omega
        | more => rw [hr] at h; simp [Sniff.succ] at h
        | bad => rw [hr] at h; simp [Sniff.succ] at h
      · split at h
        · simp at h; simp [← h.1]
        · split at h
          · simp at h; simp [← h.1]
          · simp at h

/-- S1/S2: a decision reached inside a chunk is not changed by what follows -/
theorem sniff_append_decided : ∀ (w : Nat) (a b : Text), sniffChunk w a ≠ .more →
    sniffChunk w (a ++ b) = sniffChunk w a := by
  intro w
  induction w with
  | zero =>
    intro a b h
    cases a with
    | nil => simp [sniffChunk] at h
    | cons c r => simp [sniffChunk]
  | succ w ih =>
    intro a b h
    cases a with
    | nil => simp [sniffChunk] at h
    | cons c r =>
      simp only [List.cons_append, sniffChunk] at h ⊢
      split
      · rename_i hws
        simp only [hws, ↓reduceIte] at h
        have : sniffChunk w r ≠ .more := by
          intro hm; rw [hm] at h; simp [Sniff.succ] at h
        rw [ih r b this]
      · rfl

/-- S3: a chunk of whitespace only that stays inside the window just shortens the window -/
theorem sniff_append_more : ∀ (w : Nat) (a b : Text), sniffChunk w a = .more →
    a.length ≤ w ∧
    sniffChunk w (a ++ b) = (match sniffChunk (w - a.length) b with
      | .found i s => .found (i + a.length) s
      | x => x) := by
  intro w
  induction w with
  | zero =>
    intro a b h
    cases a with
    | nil => simp; cases sniffChunk 0 b <;> rfl
    | cons c r => simp [sniffChunk] at h
  | succ w ih =>
    intro a b h
    cases a with
    | nil => simp; cases sniffChunk (w + 1) b <;> rfl
    | cons c r =>
      simp only [sniffChunk] at h
      split at h
      · rename_i hws
        have hr : sniffChunk w r = .more := by
          cases hh : sniffChunk w r <;> rw [hh] at h <;> simp [Sniff.succ] at h
        obtain ⟨hl, he⟩ := ih r b hr
        refine ⟨by simp; omega, ?_⟩
        simp only [List.cons_append, sniffChunk, hws, ↓reduceIte, he, List.length_cons]
        have : w + 1 - (r.length + 1) = w - r.length := by omega
        rw [this]
        cases sniffChunk (w - r.length) b <;> simp [Sniff.succ]
        omega
      · split at h
        · simp at h
        · split at h <;> simp at h

theorem totalLen_flatten (chunks : List Text) : byteLen chunks.flatten = totalLen chunks := by
  induction chunks with
  | nil => rfl
  | cons c cs ih => simp [totalLen, byteLen_append', ih]

/-- A: once the kind is known the remaining chunks are simply appended -/
theorem readChunks_known (max : Nat) : ∀ (rest : List Text) (seen skipped : Nat) (received : Text) (s : Bool),
    seen + totalLen rest ≤ max →
    readChunks max rest seen skipped received (some s) =
      (if (received ++ rest.flatten).isEmpty then .malformed else .ok (received ++ rest.flatten) s) := by
  intro rest
  induction rest with
  | nil => intro seen skipped received s _; simp [readChunks]
  | cons ch rest ih =>
    intro seen skipped received s h
    simp only [totalLen] at h
    have hov : ¬ (seen + byteLen ch > max) := by omega
    simp only [readChunks, hov, ↓reduceIte]
    rw [ih _ _ _ _ (by omega)]
    simp

/-- B: before the kind is known the verdict is the look-ahead verdict on the concatenation of the
remaining chunks, with the window that is left -/
theorem readChunks_unknown (max : Nat) : ∀ (rest : List Text) (seen skipped : Nat),
    seen + totalLen rest ≤ max →
    readChunks max rest seen skipped [] none = sniffVerdict (sniffChunk (128 - skipped) rest.flatten) rest.flatten := by
  intro rest
  induction rest with
  | nil => intro seen skipped _; simp [readChunks, sniffChunk, sniffVerdict]
  | cons ch rest ih =>
    intro seen skipped h
    simp only [totalLen] at h
    have hov : ¬ (seen + byteLen ch > max) := by omega
    simp only [readChunks, hov, ↓reduceIte, List.flatten_cons]
    cases hs : sniffChunk (128 - skipped) ch with
    | found idx s =>
      simp only []
      have hlt := sniff_found_lt _ _ _ _ hs
      rw [readChunks_known max rest _ _ _ _ (by omega)]
      rw [sniff_append_decided _ ch rest.flatten (by rw [hs]; simp), hs]
      simp only [sniffVerdict]
      have hd : (ch ++ rest.flatten).drop idx = ch.drop idx ++ rest.flatten := by
        rw [List.drop_append_of_le_length (by omega)]
      have hne : (ch.drop idx ++ rest.flatten).isEmpty = false := by
        have : 0 < (ch.drop idx).length := by simp; omega
        cases hcd : ch.drop idx with
        | nil => simp [hcd] at this
        | cons x xs => simp
      simp [hd, hne]
    | bad =>
      simp only []
      rw [sniff_append_decided _ ch rest.flatten (by rw [hs]; simp), hs]
      simp [sniffVerdict]
    | more =>
      simp only []
      obtain ⟨hl, he⟩ := sniff_append_more _ ch rest.flatten hs
      rw [he]
      by_cases hw : ch.length < 128 - skipped
      · simp only [hw, ↓reduceIte]
        rw [ih _ _ (by omega)]
        have : 128 - (skipped + ch.length) = 128 - skipped - ch.length := by omega
        rw [this]
        cases hs2 : sniffChunk (128 - skipped - ch.length) rest.flatten with
        | found i s =>
          simp only [sniffVerdict]
          have : (ch ++ rest.flatten).drop (i + ch.length) = rest.flatten.drop i := by
            rw [Nat.add_comm, List.drop_append]
            have h1 : List.drop (ch.length + i) ch = [] := List.drop_eq_nil_of_le (by omega)
            have h2 : ch.length + i - ch.length = i := by omega
            rw [h1, h2]; rfl
          rw [this]
        | more => simp [sniffVerdict]
        | bad => simp [sniffVerdict]
      · simp only [hw, ↓reduceIte]
        have hz : 128 - skipped - ch.length = 0 := by omega
        rw [hz]
        cases hrf : rest.flatten with
        | nil => simp [sniffChunk, sniffVerdict]
        | cons x xs => simp [sniffChunk, sniffVerdict]

/-- **C19.2** — the data handed to the RPC layer depends only on the bytes of the body, not on how
it is split into chunks (empty and whitespace-only chunks included): for every chunk list whose
total size is within the limit, `read_body` gives what it gives for the same bytes in one chunk. -/
theorem c19_chunking (max : Nat) (chunks : List Text) (h : totalLen chunks ≤ max) :
    readChunks max chunks 0 0 [] none = readChunks max [chunks.flatten] 0 0 [] none := by
  rw [readChunks_unknown max chunks 0 0 (by omega)]
  rw [readChunks_unknown max [chunks.flatten] 0 0 (by simp [totalLen, totalLen_flatten]; omega)]
  simp

/-- **C19.2/3** — hence the whole HTTP answer (status, body, handlers run) is the same for every
chunking and with an absent or correct `Content-Length` -/
theorem c19_answer_independent (cfg : Cfg) (method : Text) (ct : Option Text) (chunks : List Text)
    (h : totalLen chunks ≤ cfg.maxReq) (cl : Option Nat)
    (hcl : cl = none ∨ cl = some (totalLen chunks)) :
    httpCall cfg method ct cl chunks = httpCall cfg method ct none [chunks.flatten] := by
  have hrb : readBody cl chunks cfg.maxReq = readBody none [chunks.flatten] cfg.maxReq := by
    unfold readBody
    rcases hcl with hcl | hcl <;> subst hcl
    · exact c19_chunking _ _ h
    · have : ¬ (totalLen chunks > cfg.maxReq) := by omega
      simp only [this, ↓reduceIte]
      exact c19_chunking _ _ h
  unfold httpCall
  rw [hrb]

/-- **C19.3** — any two accepted content-type spellings give the same answer -/
theorem c19_content_type_spelling (cfg : Cfg) (ct ct' : Option Text) (cl : Option Nat) (chunks : List Text)
    (h : isJsonContentType ct = true) (h' : isJsonContentType ct' = true) :
    httpCall cfg tPOST ct cl chunks = httpCall cfg tPOST ct' cl chunks := by
  unfold httpCall
  simp [h, h']


/-- once the kind is known an oversize body is always reported as too large -/
theorem readChunks_known_oversize (max : Nat) : ∀ (rest : List Text) (seen skipped : Nat) (received : Text) (s : Bool),
    seen ≤ max → max < seen + totalLen rest →
    readChunks max rest seen skipped received (some s) = .tooLarge := by
  intro rest
  induction rest with
  | nil => intro seen skipped received s h1 h2; simp [totalLen] at h2; omega
  | cons ch rest ih =>
    intro seen skipped received s h1 h2
    simp only [totalLen] at h2
    simp only [readChunks]
    by_cases hov : seen + byteLen ch > max
    · simp [hov]
    · simp only [hov, ↓reduceIte]
      exact ih _ _ _ _ (by omega) (by omega)

theorem sniffChunk_zero_not_found (t : Text) (i : Nat) (s : Bool) : sniffChunk 0 t ≠ .found i s := by
  cases t <;> simp [sniffChunk]

/-- an oversize body whose whole text is sniffable (JSON-RPC shaped) is too large, however it is
chunked: no chunk boundary can turn it into "malformed" -/
theorem readChunks_unknown_oversize (max : Nat) : ∀ (rest : List Text) (seen skipped : Nat) (idx : Nat) (s : Bool),
    seen ≤ max → max < seen + totalLen rest →
    sniffChunk (128 - skipped) rest.flatten = .found idx s →
    readChunks max rest seen skipped [] none = .tooLarge := by
  intro rest
  induction rest with
  | nil => intro seen skipped idx s h1 h2; simp [totalLen] at h2; omega
  | cons ch rest ih =>
    intro seen skipped idx s h1 h2 hsn
    simp only [totalLen] at h2
    simp only [List.flatten_cons] at hsn
    simp only [readChunks]
    by_cases hov : seen + byteLen ch > max
    · simp [hov]
    · simp only [hov, ↓reduceIte]
      cases hs : sniffChunk (128 - skipped) ch with
      | found i s' =>
        simp only []
        exact readChunks_known_oversize max rest _ _ _ _ (by omega) (by omega)
      | bad =>
        rw [sniff_append_decided _ ch rest.flatten (by rw [hs]; simp), hs] at hsn
        simp at hsn
      | more =>
        simp only []
        obtain ⟨hl, he⟩ := sniff_append_more _ ch rest.flatten hs
        rw [he] at hsn
        by_cases hw : ch.length < 128 - skipped
        · simp only [hw, ↓reduceIte]
          cases hs2 : sniffChunk (128 - skipped - ch.length) rest.flatten with
          | found i2 s2 =>
            have : 128 - (skipped + ch.length) = 128 - skipped - ch.length := by omega
            exact ih _ _ i2 s2 (by omega) (by omega) (by rw [this]; exact hs2)
          | more => rw [hs2] at hsn; simp at hsn
          | bad => rw [hs2] at hsn; simp at hsn
        · exfalso
          have hz : 128 - skipped - ch.length = 0 := by omega
          rw [hz] at hsn
          cases hs2 : sniffChunk 0 rest.flatten with
          | found i2 s2 => exact sniffChunk_zero_not_found _ _ _ hs2
          | more => rw [hs2] at hsn; simp at hsn
          | bad => rw [hs2] at hsn; simp at hsn

/-- **C19.2 (all JSON-RPC bodies)** — for every chunk list whose concatenation is JSON-RPC shaped
(`{` or `[` after at most 127 ASCII-whitespace characters), whatever its size, `read_body` gives
what it gives for the same bytes in one chunk: the accepted data within the limit, "too large"
beyond it.  Together with `c19_chunking` (all bodies within the limit) only bodies that are both
oversize *and* not JSON-RPC shaped are left out — they are outside the statement's quantifier. -/
theorem c19_chunking_jsonrpc_bodies (max : Nat) (chunks : List Text) (idx : Nat) (s : Bool)
    (hsn : sniffChunk 128 chunks.flatten = .found idx s) :
    readChunks max chunks 0 0 [] none = readChunks max [chunks.flatten] 0 0 [] none := by
  by_cases h : totalLen chunks ≤ max
  · exact c19_chunking max chunks h
  · have h1 := readChunks_unknown_oversize max chunks 0 0 idx s (by omega) (by omega) (by simpa using hsn)
    have h2 := readChunks_unknown_oversize max [chunks.flatten] 0 0 idx s (by omega)
      (by simp [totalLen, totalLen_flatten]; omega) (by simpa using hsn)
    rw [h1, h2]


-- non-vacuity: an empty first chunk and a whitespace-only chunk before the body
example : readChunks 100 [[], [32, 10], [123, 125]] 0 0 [] none = .ok [123, 125] true := by decide
example : totalLen [[], [32, 10], [123, 125]] ≤ 100 := by decide

end Jrpc.Srv
