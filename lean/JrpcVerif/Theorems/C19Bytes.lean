/-
  C19 at the byte level — chunk independence of `read_body` for frame boundaries that fall anywhere,
  also inside a multi-byte UTF-8 character (the text-level statements of C19.lean cannot express
  those), and the tie between the two levels: on the UTF-8 encoding of text chunks the byte-level
  reader does exactly what the text-level reader does.
  The proofs of the first part are those of C19.lean with byte counts for sizes.
-/
import JrpcVerif.Theorems.C19
import JrpcVerif.Model.ReadBodyBytes
namespace Jrpc.Srv
open Jrpc

def totalLenB : List Bytes → Nat
  | [] => 0
  | c :: cs => c.length + totalLenB cs

/-- the verdict of `read_body` as a function of the look-ahead result on the whole text -/
def sniffVerdictB (sn : Sniff) (whole : Bytes) : BodyB :=
  match sn with
  | .found idx s => .ok (whole.drop idx) s
  | _ => .malformed

theorem totalLenB_flatten (chunks : List Bytes) : chunks.flatten.length = totalLenB chunks := by
  induction chunks with
  | nil => rfl
  | cons c cs ih => simp only [List.flatten_cons, List.length_append, totalLenB, ih]

/-- A: once the kind is known the remaining chunks are simply appended -/
theorem readChunksB_known (max : Nat) : ∀ (rest : List Bytes) (seen skipped : Nat) (received : Bytes) (s : Bool),
    seen + totalLenB rest ≤ max →
    readChunksB max rest seen skipped received (some s) =
      (if (received ++ rest.flatten).isEmpty then .malformed else .ok (received ++ rest.flatten) s) := by
  intro rest
  induction rest with
  | nil => intro seen skipped received s _; simp [readChunksB]
  | cons ch rest ih =>
    intro seen skipped received s h
    simp only [totalLenB] at h
    have hov : ¬ (seen + ch.length > max) := by omega
    simp only [readChunksB, hov, ↓reduceIte]
    rw [ih _ _ _ _ (by omega)]
    simp

/-- B: before the kind is known the verdict is the look-ahead verdict on the concatenation of the
remaining chunks, with the window that is left -/
theorem readChunksB_unknown (max : Nat) : ∀ (rest : List Bytes) (seen skipped : Nat),
    seen + totalLenB rest ≤ max →
    readChunksB max rest seen skipped [] none = sniffVerdictB (sniffChunk (128 - skipped) rest.flatten) rest.flatten := by
  intro rest
  induction rest with
  | nil => intro seen skipped _; simp [readChunksB, sniffChunk, sniffVerdictB]
  | cons ch rest ih =>
    intro seen skipped h
    simp only [totalLenB] at h
    have hov : ¬ (seen + ch.length > max) := by omega
    simp only [readChunksB, hov, ↓reduceIte, List.flatten_cons]
    cases hs : sniffChunk (128 - skipped) ch with
    | found idx s =>
      simp only []
      have hlt := sniff_found_lt _ _ _ _ hs
      rw [readChunksB_known max rest _ _ _ _ (by omega)]
      rw [sniff_append_decided _ ch rest.flatten (by rw [hs]; simp), hs]
      simp only [sniffVerdictB]
      have hd : (ch ++ rest.flatten).drop idx = ch.drop idx ++ rest.flatten := by
        rw [List.drop_append_of_le_length (by omega)]
      have hne : (ch.drop idx ++ rest.flatten).isEmpty = false := by
        have : 0 < (ch.drop idx).length := by simp; omega
        cases hcd : ch.drop idx with
        | nil => simp [hcd] at this
        | cons x xs => simp
      simp [hd, hne]
    | bad =>
      simp only []
      rw [sniff_append_decided _ ch rest.flatten (by rw [hs]; simp), hs]
      simp [sniffVerdictB]
    | more =>
      simp only []
      obtain ⟨hl, he⟩ := sniff_append_more _ ch rest.flatten hs
      rw [he]
      by_cases hw : ch.length < 128 - skipped
      · simp only [hw, ↓reduceIte]
        rw [ih _ _ (by omega)]
        have : 128 - (skipped + ch.length) = 128 - skipped - ch.length := by omega
        rw [this]
        cases hs2 : sniffChunk (128 - skipped - ch.length) rest.flatten with
        | found i s =>
          simp only [sniffVerdictB]
          have : (ch ++ rest.flatten).drop (i + ch.length) = rest.flatten.drop i := by
            rw [Nat.add_comm, List.drop_append]
            have h1 : List.drop (ch.length + i) ch = [] := List.drop_eq_nil_of_le (by omega)
            have h2 : ch.length + i - ch.length = i := by omega
            rw [h1, h2]; rfl
          rw [this]
        | more => simp [sniffVerdictB]
        | bad => simp [sniffVerdictB]
      · simp only [hw, ↓reduceIte]
        have hz : 128 - skipped - ch.length = 0 := by omega
        rw [hz]
        cases hrf : rest.flatten with
        | nil => simp [sniffChunk, sniffVerdictB]
        | cons x xs => simp [sniffChunk, sniffVerdictB]

/-- **C19.2** — the data handed to the RPC layer depends only on the bytes of the body, not on how
it is split into chunks (empty and whitespace-only chunks included): for every chunk list whose
total size is within the limit, `read_body` gives what it gives for the same bytes in one chunk. -/
theorem c19_chunking_bytes (max : Nat) (chunks : List Bytes) (h : totalLenB chunks ≤ max) :
    readChunksB max chunks 0 0 [] none = readChunksB max [chunks.flatten] 0 0 [] none := by
  rw [readChunksB_unknown max chunks 0 0 (by omega)]
  rw [readChunksB_unknown max [chunks.flatten] 0 0 (by simp only [totalLenB, totalLenB_flatten]; omega)]
  simp


/-- once the kind is known an oversize body is always reported as too large -/
theorem readChunksB_known_oversize (max : Nat) : ∀ (rest : List Bytes) (seen skipped : Nat) (received : Bytes) (s : Bool),
    seen ≤ max → max < seen + totalLenB rest →
    readChunksB max rest seen skipped received (some s) = .tooLarge := by
  intro rest
  induction rest with
  | nil => intro seen skipped received s h1 h2; simp [totalLenB] at h2; omega
  | cons ch rest ih =>
    intro seen skipped received s h1 h2
    simp only [totalLenB] at h2
    simp only [readChunksB]
    by_cases hov : seen + ch.length > max
    · simp [hov]
    · simp only [hov, ↓reduceIte]
      exact ih _ _ _ _ (by omega) (by omega)

/-- an oversize body whose whole text is sniffable (JSON-RPC shaped) is too large, however it is
chunked: no chunk boundary can turn it into "malformed" -/
theorem readChunksB_unknown_oversize (max : Nat) : ∀ (rest : List Bytes) (seen skipped : Nat) (idx : Nat) (s : Bool),
    seen ≤ max → max < seen + totalLenB rest →
    sniffChunk (128 - skipped) rest.flatten = .found idx s →
    readChunksB max rest seen skipped [] none = .tooLarge := by
  intro rest
  induction rest with
  | nil => intro seen skipped idx s h1 h2; simp [totalLenB] at h2; omega
  | cons ch rest ih =>
    intro seen skipped idx s h1 h2 hsn
    simp only [totalLenB] at h2
    simp only [List.flatten_cons] at hsn
    simp only [readChunksB]
    by_cases hov : seen + ch.length > max
    · simp [hov]
    · simp only [hov, ↓reduceIte]
      cases hs : sniffChunk (128 - skipped) ch with
      | found i s' =>
        simp only []
        exact readChunksB_known_oversize max rest _ _ _ _ (by omega) (by omega)
      | bad =>
        rw [sniff_append_decided _ ch rest.flatten (by rw [hs]; simp), hs] at hsn
        simp at hsn
      | more =>
        simp only []
        obtain ⟨hl, he⟩ := sniff_append_more _ ch rest.flatten hs
        rw [he] at hsn
        by_cases hw : ch.length < 128 - skipped
        · simp only [hw, ↓reduceIte]
          cases hs2 : sniffChunk (128 - skipped - ch.length) rest.flatten with
          | found i2 s2 =>
            have : 128 - (skipped + ch.length) = 128 - skipped - ch.length := by omega
            exact ih _ _ i2 s2 (by omega) (by omega) (by rw [this]; exact hs2)
          | more => rw [hs2] at hsn; simp at hsn
          | bad => rw [hs2] at hsn; simp at hsn
        · exfalso
          have hz : 128 - skipped - ch.length = 0 := by omega
          rw [hz] at hsn
          cases hs2 : sniffChunk 0 rest.flatten with
          | found i2 s2 => exact sniffChunk_zero_not_found _ _ _ hs2
          | more => rw [hs2] at hsn; simp at hsn
          | bad => rw [hs2] at hsn; simp at hsn

/-- **C19.2 (all JSON-RPC bodies)** — for every chunk list whose concatenation is JSON-RPC shaped
(`{` or `[` after at most 127 ASCII-whitespace characters), whatever its size, `read_body` gives
what it gives for the same bytes in one chunk: the accepted data within the limit, "too large"
beyond it.  Together with `c19_chunking` (all bodies within the limit) only bodies that are both
oversize *and* not JSON-RPC shaped are left out — they are outside the statement's quantifier. -/
theorem c19_chunking_jsonrpc_bodies_bytes (max : Nat) (chunks : List Bytes) (idx : Nat) (s : Bool)
    (hsn : sniffChunk 128 chunks.flatten = .found idx s) :
    readChunksB max chunks 0 0 [] none = readChunksB max [chunks.flatten] 0 0 [] none := by
  by_cases h : totalLenB chunks ≤ max
  · exact c19_chunking_bytes max chunks h
  · have h1 := readChunksB_unknown_oversize max chunks 0 0 idx s (by omega) (by omega) (by simpa using hsn)
    have h2 := readChunksB_unknown_oversize max [chunks.flatten] 0 0 idx s (by omega)
      (by simp only [totalLenB, totalLenB_flatten]; omega) (by simpa using hsn)
    rw [h1, h2]



/-! ### text level ↔ byte level -/

theorem utf8Encode_append (a b : Text) : utf8Encode (a ++ b) = utf8Encode a ++ utf8Encode b := by
  induction a with
  | nil => rfl
  | cons c a ih => simp [utf8Encode, ih]

theorem utf8EncodeChar_length (c : Nat) : (utf8EncodeChar c).length = utf8Width c := by
  unfold utf8EncodeChar utf8Width
  split
  · rfl
  · split
    · rfl
    · split <;> rfl

theorem utf8Encode_length (t : Text) : (utf8Encode t).length = byteLen t := by
  induction t with
  | nil => rfl
  | cons c t ih => simp [utf8Encode, byteLen, utf8EncodeChar_length, ih]

theorem utf8Encode_isEmpty (t : Text) : (utf8Encode t).isEmpty = t.isEmpty := by
  cases t with
  | nil => rfl
  | cons c t =>
    have : 0 < (utf8Encode (c :: t)).length := by
      rw [utf8Encode_length]; simp [byteLen, utf8Width]; split <;> (try split) <;> (try split) <;> omega
    cases h : utf8Encode (c :: t) with
    | nil => rw [h] at this; simp at this
    | cons x xs => rfl

theorem utf8Decode_1 (b : Nat) (r : Bytes) (h : b < 0x80) :
    utf8Decode (b :: r) = (utf8Decode r).map (b :: ·) := by
  rw [utf8Decode.eq_def]; simp only [h, ↓reduceIte]

theorem utf8Decode_2 (b b1 : Nat) (r : Bytes) (h1 : ¬ b < 0x80) (h2 : ¬ b < 0xC0) (h3 : b < 0xE0) :
    utf8Decode (b :: b1 :: r) = (utf8Decode r).map (((b - 0xC0) * 64 + (b1 - 0x80)) :: ·) := by
  rw [utf8Decode.eq_def]; simp only [h1, h2, h3, ↓reduceIte]

theorem utf8Decode_3 (b b1 b2 : Nat) (r : Bytes) (h1 : ¬ b < 0x80) (h2 : ¬ b < 0xC0) (h3 : ¬ b < 0xE0) (h4 : b < 0xF0) :
    utf8Decode (b :: b1 :: b2 :: r) =
      (utf8Decode r).map (((b - 0xE0) * 4096 + (b1 - 0x80) * 64 + (b2 - 0x80)) :: ·) := by
  rw [utf8Decode.eq_def]; simp only [h1, h2, h3, h4, ↓reduceIte]

theorem utf8Decode_4 (b b1 b2 b3 : Nat) (r : Bytes) (h1 : ¬ b < 0x80) (h2 : ¬ b < 0xC0) (h3 : ¬ b < 0xE0) (h4 : ¬ b < 0xF0) :
    utf8Decode (b :: b1 :: b2 :: b3 :: r) =
      (utf8Decode r).map (((b - 0xF0) * 262144 + (b1 - 0x80) * 4096 + (b2 - 0x80) * 64 + (b3 - 0x80)) :: ·) := by
  rw [utf8Decode.eq_def]; simp only [h1, h2, h3, h4, ↓reduceIte]

/-- decoding the encoding gives the text back, for every list of code points -/
theorem utf8Decode_encode (t : Text) : utf8Decode (utf8Encode t) = some t := by
  induction t with
  | nil => rfl
  | cons c t ih =>
    simp only [utf8Encode, utf8EncodeChar]
    by_cases h1 : c < 0x80
    · simp only [h1, ↓reduceIte, List.cons_append, List.nil_append]
      rw [utf8Decode_1 _ _ h1, ih]; rfl
    · by_cases h2 : c < 0x800
      · simp only [h1, h2, ↓reduceIte, List.cons_append, List.nil_append]
        rw [utf8Decode_2 _ _ _ (by omega) (by omega) (by omega), ih]
        simp only [Option.map_some]
        exact congrArg (fun x => some (x :: t)) (by omega)
      · by_cases h3 : c < 0x10000
        · simp only [h1, h2, h3, ↓reduceIte, List.cons_append, List.nil_append]
          rw [utf8Decode_3 _ _ _ _ (by omega) (by omega) (by omega) (by omega), ih]
          simp only [Option.map_some]
          exact congrArg (fun x => some (x :: t)) (by omega)
        · simp only [h1, h2, h3, ↓reduceIte, List.cons_append, List.nil_append]
          rw [utf8Decode_4 _ _ _ _ _ (by omega) (by omega) (by omega) (by omega), ih]
          simp only [Option.map_some]
          exact congrArg (fun x => some (x :: t)) (by omega)

/-- the look-ahead sees the same thing on the bytes as on the text: whitespace, `{` and `[` are
single bytes and no byte of a multi-byte character is one of them -/
theorem sniffChunk_utf8 : ∀ (w : Nat) (t : Text), sniffChunk w (utf8Encode t) = sniffChunk w t := by
  intro w
  induction w with
  | zero =>
    intro t
    cases t with
    | nil => rfl
    | cons c t =>
      have : (utf8Encode (c :: t)).isEmpty = false := by rw [utf8Encode_isEmpty]; rfl
      cases h : utf8Encode (c :: t) with
      | nil => rw [h] at this; simp at this
      | cons x xs => simp [sniffChunk]
  | succ w ih =>
    intro t
    cases t with
    | nil => rfl
    | cons c t =>
      simp only [utf8Encode, utf8EncodeChar]
      by_cases h1 : c < 0x80
      · simp only [h1, ↓reduceIte, List.cons_append, List.nil_append, sniffChunk, ih]
      · have hws : isAsciiWs c = false := by
          simp [isAsciiWs, isJsonWs]; omega
        have h123 : (c == 123) = false := by simp; omega
        have h91 : (c == 91) = false := by simp; omega
        by_cases h2 : c < 0x800
        · have b1 : isAsciiWs (0xC0 + c / 64) = false := by simp [isAsciiWs, isJsonWs]; omega
          have b2 : (0xC0 + c / 64 == 123) = false := by simp; omega
          have b3 : (0xC0 + c / 64 == 91) = false := by simp; omega
          simp [h1, h2, sniffChunk, hws, h123, h91, b1, b2, b3]
        · by_cases h3 : c < 0x10000
          · have b1 : isAsciiWs (0xE0 + c / 4096) = false := by simp [isAsciiWs, isJsonWs]; omega
            have b2 : (0xE0 + c / 4096 == 123) = false := by simp; omega
            have b3 : (0xE0 + c / 4096 == 91) = false := by simp; omega
            simp [h1, h2, h3, sniffChunk, hws, h123, h91, b1, b2, b3]
          · have b1 : isAsciiWs (0xF0 + c / 262144) = false := by simp [isAsciiWs, isJsonWs]; omega
            have b2 : (0xF0 + c / 262144 == 123) = false := by simp; omega
            have b3 : (0xF0 + c / 262144 == 91) = false := by simp; omega
            simp [h1, h2, h3, sniffChunk, hws, h123, h91, b1, b2, b3]

theorem sniff_more_ascii : ∀ (w : Nat) (t : Text), sniffChunk w t = .more → byteLen t = t.length := by
  intro w
  induction w with
  | zero =>
    intro t h
    cases t with
    | nil => rfl
    | cons c t => simp [sniffChunk] at h
  | succ w ih =>
    intro t h
    cases t with
    | nil => rfl
    | cons c t =>
      simp only [sniffChunk] at h
      split at h
      · rename_i hws
        have hr : sniffChunk w t = .more := by
          cases hh : sniffChunk w t <;> rw [hh] at h <;> simp [Sniff.succ] at h
        have hc : c < 0x80 := by
          simp [isAsciiWs, isJsonWs] at hws; omega
        simp [byteLen, utf8Width, hc, ih t hr]; omega
      · split at h
        · simp at h
        · split at h <;> simp at h

theorem sniff_found_prefix_ascii : ∀ (w : Nat) (t : Text) (idx : Nat) (s : Bool),
    sniffChunk w t = .found idx s → (utf8Encode t).drop idx = utf8Encode (t.drop idx) := by
  intro w
  induction w with
  | zero => intro t idx s h; cases t <;> simp [sniffChunk] at h
  | succ w ih =>
    intro t idx s h
    cases t with
    | nil => simp [sniffChunk] at h
    | cons c t =>
      simp only [sniffChunk] at h
      split at h
      · rename_i hws
        have hc : c < 0x80 := by
          simp [isAsciiWs, isJsonWs] at hws; omega
        cases hr : sniffChunk w t with
        | found i s' =>
          rw [hr] at h
          simp only [Sniff.succ, Sniff.found.injEq] at h
          obtain ⟨hi, _⟩ := h
          subst hi
          simp only [utf8Encode, utf8EncodeChar, hc, ↓reduceIte, List.cons_append, List.nil_append, List.drop_succ_cons]
          exact ih t i s' hr
        | more => rw [hr] at h; simp [Sniff.succ] at h
        | bad => rw [hr] at h; simp [Sniff.succ] at h
      · split at h
        · simp only [Sniff.found.injEq] at h
          rw [← h.1]; rfl
        · split at h
          · simp only [Sniff.found.injEq] at h
            rw [← h.1]; rfl
          · simp at h

/-- the text-level outcome seen at the byte level -/
def Body.toB : Body → BodyB
  | .ok data s => .ok (utf8Encode data) s
  | .tooLarge => .tooLarge
  | .malformed => .malformed

/-- **text ↔ bytes** — on the UTF-8 encoding of text chunks the byte-level reader does exactly what
the text-level reader does -/
theorem readChunksB_utf8 (max : Nat) : ∀ (chunks : List Text) (seen skipped : Nat) (received : Text) (single : Option Bool),
    readChunksB max (chunks.map utf8Encode) seen skipped (utf8Encode received) single =
      (readChunks max chunks seen skipped received single).toB := by
  intro chunks
  induction chunks with
  | nil =>
    intro seen skipped received single
    cases single with
    | none => rfl
    | some s =>
      simp only [List.map_nil, readChunksB, readChunks, utf8Encode_isEmpty]
      split <;> rfl
  | cons ch rest ih =>
    intro seen skipped received single
    simp only [List.map_cons, readChunksB, readChunks, utf8Encode_length]
    split
    · rfl
    · cases single with
      | some s =>
        simp only []
        rw [← utf8Encode_append]
        exact ih _ _ _ _
      | none =>
        simp only [sniffChunk_utf8]
        cases hs : sniffChunk (128 - skipped) ch with
        | found idx s =>
          simp only []
          rw [sniff_found_prefix_ascii _ _ _ _ hs]
          exact ih _ _ _ _
        | more =>
          simp only []
          rw [sniff_more_ascii _ _ hs]
          split
          · exact ih _ _ _ _
          · rfl
        | bad => rfl

theorem readBodyB_utf8 (cl : Option Nat) (chunks : List Text) (max : Nat) :
    readBodyB cl (chunks.map utf8Encode) max = (readBody cl chunks max).toB := by
  unfold readBodyB readBody
  cases cl with
  | none => exact readChunksB_utf8 max chunks 0 0 [] none
  | some n =>
    simp only []
    split
    · rfl
    · exact readChunksB_utf8 max chunks 0 0 [] none

/-- the byte-level HTTP call on encoded text chunks is the text-level HTTP call -/
theorem httpCallB_utf8 (cfg : Cfg) (m : Text) (ct : Option Text) (cl : Option Nat) (chunks : List Text) :
    httpCallB cfg m ct cl (chunks.map utf8Encode) = some (httpCall cfg m ct cl chunks) := by
  unfold httpCallB httpCall
  split
  · rfl
  · split
    · rfl
    · rw [readBodyB_utf8]
      cases readBody cl chunks cfg.maxReq with
      | tooLarge => rfl
      | malformed => rfl
      | ok data single =>
        simp only [Body.toB, utf8Decode_encode]
        rfl

/-- **C19.2 at the byte level** — for a body that is UTF-8 text `t` as a whole and within the
request limit, every way of cutting its *bytes* into data frames — also inside a multi-byte
character, with empty frames anywhere — and an absent or exact `Content-Length` gives the answer
the text gets in one piece. -/
theorem c19_any_byte_split (cfg : Cfg) (m : Text) (ct : Option Text) (t : Text) (frames : List Bytes)
    (hf : frames.flatten = utf8Encode t) (hlim : byteLen t ≤ cfg.maxReq)
    (cl : Option Nat) (hcl : cl = none ∨ cl = some (byteLen t)) :
    httpCallB cfg m ct cl frames = some (httpCall cfg m ct none [t]) := by
  have htot : totalLenB frames = byteLen t := by
    rw [← totalLenB_flatten, hf, utf8Encode_length]
  have hrb : readBodyB cl frames cfg.maxReq = readBodyB none [utf8Encode t] cfg.maxReq := by
    unfold readBodyB
    have hc := c19_chunking_bytes cfg.maxReq frames (by omega)
    rw [hf] at hc
    rcases hcl with h | h <;> subst h
    · exact hc
    · have : ¬ (byteLen t > cfg.maxReq) := by omega
      simp only [this, ↓reduceIte]
      exact hc
  have h1 : httpCallB cfg m ct cl frames = httpCallB cfg m ct none [utf8Encode t] := by
    unfold httpCallB
    rw [hrb]
  rw [h1]
  exact httpCallB_utf8 cfg m ct none [t]

-- non-vacuity: "{"é"…" cut inside the two-byte character é (c3 a9)
example : sniffChunk 128 [123, 34, 0xC3] = .found 0 true := by decide
example : utf8Encode [123, 34, 233, 34, 125] = [123, 34, 0xC3, 0xA9, 34, 125] := by decide
example : ([[123, 34, 0xC3], [], [0xA9, 34, 125]] : List Bytes).flatten = utf8Encode [123, 34, 233, 34, 125] := by decide

end Jrpc.Srv
