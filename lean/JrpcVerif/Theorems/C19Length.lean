/-
  C19 — an announced length that is within the limit does not enter the answer: the same frames get the
  same answer with `Content-Length: n` for any `n ≤ max_request_body_size` (the true length, a lying one,
  *exactly* the limit) as without the header.  (Above the limit the announcement alone refuses the
  request: `c07_http_never_processed_bytes`.)  Seeded change C19-R11 (`>=` in the up-front check) breaks
  exactly the `n = max` instance.
-/
import JrpcVerif.Theorems.C07Bytes
namespace Jrpc.Srv
open Jrpc

theorem readBodyB_announced_within_limit (n max : Nat) (chunks : List Bytes) (h : n ≤ max) :
    readBodyB (some n) chunks max = readBodyB none chunks max := by
  simp only [readBodyB]
  rw [if_neg (by omega)]

/-- the whole HTTP call -/
theorem c19_announced_length_irrelevant (cfg : Cfg) (method : Text) (ct : Option Text) (n : Nat) (chunks : List Bytes)
    (h : n ≤ cfg.maxReq) :
    httpCallB cfg method ct (some n) chunks = httpCallB cfg method ct none chunks := by
  simp only [httpCallB, readBodyB_announced_within_limit n cfg.maxReq chunks h]

/-- the boundary instance: a body of exactly the limit, announced truthfully -/
theorem c19_exactly_at_the_limit (cfg : Cfg) (method : Text) (ct : Option Text) (chunks : List Bytes)
    (h : totalLenB chunks = cfg.maxReq) :
    httpCallB cfg method ct (some (totalLenB chunks)) chunks = httpCallB cfg method ct none chunks :=
  c19_announced_length_irrelevant cfg method ct _ chunks (by omega)

end Jrpc.Srv
