/-
  C20 — params encoding: builders emit JSON that parses back to what was inserted.

  An inserted value is what its `Serialize` impl does to the buffer (`Ser.ok t`: wrote the complete
  text `t`; `Ser.fails e`: wrote `e`, then failed).  Well-formedness hypothesis on successfully
  serialised values: `Stable t` (Proofs/StableLemmas.lean) — `t` is one complete JSON value that
  the skipper recognises in front of `,` `]` `}` / end; serde_json's output always is.
-/
import JrpcVerif.Proofs.BuildLemmas
namespace Jrpc

/-- **C20.2** — a failed insert reports the error and leaves the builder exactly as it was
(after `maybe_initialize`), for both builders and whatever prefix the serialiser emitted. -/
theorem c20_failed_insert_harmless (b : Builder) (k e : Text) :
    b.insert (.fails e) = (b.init, false) ∧ b.insertNamed k (.fails e) = (b.init, false) :=
  ⟨insert_fails b e, insertNamed_fails b k e⟩

/-- **C20.1 (positional)** — for every sequence of inserts: nothing inserted ⇒ "no params";
otherwise the built text is a JSON array whose elements are exactly the successfully inserted
texts, in insertion order (`[]` when every insert failed). -/
theorem c20_array (ops : List Ser) (hst : ∀ t ∈ okTexts ops, Stable t) :
    (ops = [] → (Builder.positional.insertAll ops).build = none) ∧
    (ops ≠ [] → ∃ t, (Builder.positional.insertAll ops).build = some t ∧ elements t = some (okTexts ops)) := by
  refine ⟨?_, ?_⟩
  · intro h; subst h; decide
  · intro h
    obtain ⟨hb, hs⟩ := insertAll_positional ops h
    have := build_of_bytes _ 91 (okTexts ops) hb (by decide)
    rw [hs] at this
    exact ⟨_, this, elements_join _ hst⟩

/-- **C20.1 (named)** — the built text is a JSON object whose members are exactly the
successfully inserted (name, value) pairs, in insertion order, names decoded. -/
theorem c20_object (ops : List (Text × Ser)) (hst : ∀ kv ∈ okPairs ops, Stable kv.2) :
    (ops = [] → (Builder.named.insertAllNamed ops).build = none) ∧
    (ops ≠ [] → ∃ t, (Builder.named.insertAllNamed ops).build = some t ∧
        (members t).bind decodeKeys = some (okPairs ops)) := by
  refine ⟨?_, ?_⟩
  · intro h; subst h; decide
  · intro h
    obtain ⟨hb, hs⟩ := insertAllNamed_named ops h
    have := build_of_bytes _ 123 ((okPairs ops).map memberText) hb (by decide)
    rw [hs, joinElems_memberText] at this
    refine ⟨_, this, ?_⟩
    rw [members_join _ hst]
    simp [decodeKeys_rawKeys]

/-- **C20.3** — `build` never yields invalid JSON (so `RawValue::from_string(..).expect(..)` cannot
panic): whatever was inserted, the result is `None` or a text the declarative splitter accepts. -/
theorem c20_never_invalid (ops : List Ser) (hst : ∀ t ∈ okTexts ops, Stable t) :
    (Builder.positional.insertAll ops).build = none ∨
    ∃ t es, (Builder.positional.insertAll ops).build = some t ∧ elements t = some es := by
  by_cases h : ops = []
  · left; exact (c20_array ops hst).1 h
  · right
    obtain ⟨t, h1, h2⟩ := (c20_array ops hst).2 h
    exact ⟨t, _, h1, h2⟩

/-- **C20.4** — the batch builder keeps (method, params) pairs in order; empty ⇒ error -/
theorem c20_batch_builder (entries : List (Text × Option Text)) :
    (entries = [] → batchBuild entries = none) ∧ (entries ≠ [] → batchBuild entries = some entries) := by
  cases entries <;> simp [batchBuild]

/-! Stable values exist and include what the harness inserts -/

-- non-vacuity: a failing insert between two successful ones
example : (Builder.positional.insertAll [.ok tNull, .fails [123, 34], .ok (encodeString [97])]).build
    = some [91, 110, 117, 108, 108, 44, 34, 97, 34, 93] := by decide
example : ∀ t ∈ okTexts [.ok tNull, .fails [123, 34], .ok (encodeString [97])], Stable t := by
  intro t ht
  simp [okTexts] at ht
  rcases ht with h | h <;> subst h
  · exact stable_null
  · exact stable_encodeString [97]

end Jrpc
