/-
  Text-layer theorems shared by C15 / C16 / C17 / C20: the `Stable` well-formedness hypothesis used
  throughout (one complete JSON value, recognised in front of any delimiter) is satisfied by
  *every* raw slice that a plain parse of valid JSON yields — i.e. by everything a `RawValue` holds.
-/
import JrpcVerif.Proofs.SplitLemmas
namespace Jrpc

/-- every value slice of a valid document is Stable -/
theorem text_slice_stable (f : Nat) (t rest : Text) (h : skipValue f t = some rest) : Stable (consumed t rest) :=
  slice_stable f t rest h

/-- the value of a whole document (outer whitespace removed) is Stable -/
theorem text_doc_stable (t v : Text) (h : docValue t = some v) : Stable v := docValue_stable t v h

/-- every element of a parsed array is Stable -/
theorem text_elements_stable (t : Text) (es : List Text) (h : elements t = some es) : ∀ e ∈ es, Stable e :=
  elements_stable t es h

/-- every member value of a parsed object is Stable -/
theorem text_members_stable (t : Text) (ms : List (Text × Text)) (h : members t = some ms) :
    ∀ kv ∈ ms, Stable kv.2 := members_stable t ms h

/-- fuel never matters: a text recognised with any fuel is recognised with every fuel at least the
number of characters consumed, in particular with the default `t.length + 1` -/
theorem text_fuel_independent (f : Nat) (t rest : Text) (h : skipValue f t = some rest) :
    skipValue (fuelFor t) t = some rest :=
  (skip_fuel_enough f).1 t rest h (fuelFor t) (by simp [fuelFor]; omega)

end Jrpc
