/-
  Tie between the hand-written wire model (Model/Wire.lean) and the member-name tables the translator
  regenerates from types/src/{request,response,error}.rs on every run (Gen/WireFields.lean):

  * the name lists and `deny_unknown_fields` flags the model's decoders hand to `structFields` ARE the
    derives' field lists (declaration order = the order a JSON array is read positionally);
  * which members may be absent when reading is what the model's decoders allow (`params`, `data`);
  * the model's encoders write the derives' members, in the derives' order, leaving out exactly the
    `skip_serializing_if = "Option::is_none"` ones that are `None`;
  * the names the hand-written `Response` visitor recognises, its `FIELDS`, and what `Serialize for
    Response` writes.

  A renamed / added / removed / reordered member, a dropped or added `deny_unknown_fields`, `skip`,
  `skip_serializing_if`, or a derive replaced by a hand-written impl breaks this file (and the
  correspondence then looks for a message on which implementation and model differ).
-/
import JrpcVerif.Model.Wire
import JrpcVerif.Model.ClientMgr
import JrpcVerif.Gen.WireFields
namespace Jrpc
open Jrpc.Gen

theorem wire_fields_translator_ok : wireFieldsTranslatorOk = true := by decide

/-- decoders: name lists and deny flags -/
theorem wire_fields_tie_decode :
    requestKnown = requestStruct.fields ∧ requestDeny = requestStruct.deny ∧
    notifKnown = notificationStruct.fields ∧ notifDeny = notificationStruct.deny ∧
    invalidRequestKnown = invalidRequestStruct.fields ∧ invalidRequestDeny = invalidRequestStruct.deny ∧
    errObjKnown = errorObjectStruct.fields ∧ errObjDeny = errorObjectStruct.deny ∧
    [kSubscription, kResult] = subscriptionPayloadStruct.fields ∧ false = subscriptionPayloadStruct.deny ∧
    [kSubscription, kError] = subscriptionPayloadErrorStruct.fields ∧ false = subscriptionPayloadErrorStruct.deny ∧
    responseKnown = responseFieldArms ∧ responseKnown = responseFieldsConst := by decide

/-- every struct the model decodes derives `Deserialize`, every one it encodes derives `Serialize` -/
theorem wire_fields_tie_derives :
    requestStruct.deserialize = true ∧ notificationStruct.deserialize = true ∧ invalidRequestStruct.deserialize = true ∧
    errorObjectStruct.deserialize = true ∧ subscriptionPayloadStruct.deserialize = true ∧
    subscriptionPayloadErrorStruct.deserialize = true ∧
    requestStruct.serialize = true ∧ notificationStruct.serialize = true ∧ errorObjectStruct.serialize = true ∧
    subscriptionPayloadStruct.serialize = true ∧ subscriptionPayloadErrorStruct.serialize = true := by decide

/-- members that may be absent when reading: `params` of a request, `data` of an error object, nothing
else (the decoders' `optRaw` positions; `Notification<T>` is instantiated with `T = Option<_>` by its
users, which the model's `decodeNotif` reflects) -/
theorem wire_fields_tie_optional :
    requestStruct.optional = [false, false, false, true] ∧
    notificationStruct.optional = [false, false, false] ∧
    invalidRequestStruct.optional = [false] ∧
    errorObjectStruct.optional = [false, false, true] ∧
    subscriptionPayloadStruct.optional = [false, false] ∧
    subscriptionPayloadErrorStruct.optional = [false, false] := by decide

/-- what a derived `Serialize` writes: every member in declaration order, except an omit-when-`None`
member whose value is absent (`present` says which values are there) -/
def keysWritten : List (List Nat) → List Bool → List Bool → List (List Nat)
  | k :: ks, o :: os, p :: ps => (if p || !o then [k] else []) ++ keysWritten ks os ps
  | _, _, _ => []

theorem encodeRequest_keys (r : Request) :
    (requestMembers r).map (·.1) = keysWritten requestStruct.fields requestStruct.omitNone [true, true, true, r.params.isSome] := by
  cases h : r.params <;> simp [requestMembers, h] <;> decide

theorem encodeErrObj_keys (e : ErrObj) :
    (errObjMembers e).map (·.1) = keysWritten errorObjectStruct.fields errorObjectStruct.omitNone [true, true, e.data.isSome] := by
  cases h : e.data <;> simp [errObjMembers, h] <;> decide

/-- a notification always writes its `params` (as `null` when absent): no omit attribute -/
theorem notification_writes_all : notificationStruct.omitNone = [false, false, false] := by decide

/-- `Serialize for Response`: `jsonrpc` when present, `id`, then the one payload member -/
theorem encodeResponse_keys (r : Response) :
    (responseMembers r).map (·.1) =
      responseWritten.filter (fun k =>
        (k != kJsonrpc || r.jsonrpc) &&
        (k != kResult || (match r.payload with | .result _ => true | .error _ => false)) &&
        (k != kError || (match r.payload with | .result _ => false | .error _ => true))) := by
  cases r with
  | mk j i p => cases j <;> cases p <;> simp [responseMembers] <;> decide

/-- non-vacuity / reading aid: the request table is the four spec names -/
example : requestStruct.fields = [kJsonrpc, kId, kMethod, kParams] := by decide

end Jrpc
