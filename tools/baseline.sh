#!/bin/bash
# Runs the repository's pinned baseline test suite (hooks guard OFF) and prints a pass/fail summary.
# Exit 0 iff exactly the 2 known network-dependent tests (https_works, wss_works) fail and nothing else.
cd /repo || exit 2
[ -f /w/out/rust_env.sh ] && . /w/out/rust_env.sh
export CARGO_NET_OFFLINE=true
out=$(cargo nextest run --workspace --no-fail-fast --tool-config-file pb:/w/lib/nextest.toml --profile pb --test-threads 8 --offline 2>&1)
echo "$out" | tail -15
summary=$(echo "$out" | grep -E "Summary" | tail -1)
echo "SUMMARY: $summary"
failed=$(echo "$out" | grep -E "^\s+(FAIL|TIMEOUT|SIGABRT|SIGSEGV)" | grep -v "https_works\|wss_works" | sort -u)
if [ -n "$failed" ]; then echo "UNEXPECTED FAILURES:"; echo "$failed"; exit 1; fi
echo "$summary" | grep -q "281 passed" || { echo "expected 281 passed"; exit 1; }
exit 0
