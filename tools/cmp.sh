#!/bin/bash
# usage: tools/cmp.sh <run dir>   — run the model on ops.txt and summarise disagreements / oracle failures
d=$1
/verif/lean/.lake/build/bin/jrpc_model < $d/ops.txt > $d/model.txt
python3 - "$d" <<'PY'
import sys
d=sys.argv[1]
ops=open(d+'/ops.txt').read().split('\n')[:-1]
imp=open(d+'/impl.txt').read().split('\n')[:-1]
mod=open(d+'/model.txt').read().split('\n')[:-1]
orc=open(d+'/oracle.txt').read().split('\n')[:-1]
print("lines",len(ops),len(imp),len(mod),len(orc))
bad=[i for i in range(min(len(ops),len(imp),len(mod))) if imp[i]!=mod[i] and not imp[i].startswith('#skip')]
print("disagreements",len(bad))
def unhex(h):
    if h=='-': return ''
    try: return bytes.fromhex(h).decode('utf-8','replace')
    except Exception: return h
def pretty(s):
    out=[]
    for w in s.split(' '):
        parts=w.split(':')
        out.append(':'.join(unhex(p) if len(p)>=2 and all(c in '0123456789abcdef' for c in p) and len(p)%2==0 else p for p in parts))
    return ' '.join(out)
for i in bad[:int(sys.argv[2]) if len(sys.argv)>2 else 4]:
    print("--- line",i)
    print(" op   :",pretty(ops[i])[:700])
    print(" impl :",pretty(imp[i])[:700])
    print(" model:",pretty(mod[i])[:700])
fails=[i for i in range(len(orc)) if orc[i].startswith('FAIL') or orc[i].startswith('KF')]
print("oracle failures",len(fails))
from collections import Counter
c=Counter(o[:90] for o in orc if o.startswith('FAIL') or o.startswith('KF'))
for k,v in c.most_common(8): print("  ",v,k)
for i in fails[:3]:
    print("--- oracle line",i, pretty(ops[i])[:400]); print("    ",orc[i][:400])
PY
