#!/usr/bin/env python3
"""
Confirm a seeded change independently and archive it under /verif/seeded/<id>/.
  tools/confirm_mutant.py <mutant dir> [--props C15,C16]
For the mutant directory (patch.diff, demo.rs, meta.json with a "demo" field of the form
"demo.rs -> copy to <path>; run: <command>"):
  1. scratch worktree /tmp/mc of /repo HEAD
  2. demo WITHOUT the patch must pass; demo WITH the patch must fail
  3. with the patch the existing suite must still pass (281 passed, only https_works / wss_works fail)
  4. the registered checks of the given properties are run on the mutant (tools/run_on_mutant.sh)
Writes /verif/seeded/<id>/{patch.diff, demo.rs, meta.json}.
"""
import json, os, re, shutil, subprocess, sys

def sh(cmd, cwd=None, timeout=3600):
    p = subprocess.run(cmd, shell=True, cwd=cwd, stdout=subprocess.PIPE, stderr=subprocess.STDOUT, text=True, timeout=timeout,
                       env=dict(os.environ, CARGO_NET_OFFLINE="true"))
    return p.returncode, p.stdout

def main():
    d = os.path.abspath(sys.argv[1])
    mid = os.path.basename(d)
    props = None
    if "--props" in sys.argv:
        props = sys.argv[sys.argv.index("--props") + 1].split(",")
    meta = json.load(open(f"{d}/meta.json"))
    props = props or [meta["property"]]
    MC = "/tmp/mc" + os.environ.get("MUT_SLOT", "")
    if not os.path.isdir(MC):
        sh(f"git -C /repo worktree add --detach {MC} HEAD")
    head = sh("git -C /repo rev-parse HEAD")[1].strip()
    sh(f"git -C {MC} checkout -q --detach {head}; git -C {MC} checkout -q -- .; git -C {MC} clean -fdq -e target")
    demo = meta.get("demo") or meta.get("demo_placement") or ""
    res = {"demo_spec": demo}
    md = re.search(r"([\w/.-]+/(?:demo|mut)_[\w-]+\.rs)", demo)
    mc = re.search(r"((?:CARGO_NET_OFFLINE=true )?cargo nextest run .*?--test [\w-]+)", demo)
    if not (md and mc):
        res["error"] = "demo field not in the expected form; confirm by hand"
        print(json.dumps(res, indent=1)); return 1
    dest, cmd = md.group(1), mc.group(1).strip().rstrip(".")
    cmd = re.sub(r"cd \S+ && ", "", cmd)
    os.makedirs(os.path.dirname(f"{MC}/{dest}"), exist_ok=True)
    shutil.copy(f"{d}/demo.rs", f"{MC}/{dest}")
    rc0, out0 = sh(cmd, cwd=MC)
    res["demo_without_patch"] = {"rc": rc0, "tail": out0.strip().splitlines()[-4:]}
    rc, out = sh(f"git apply {d}/patch.diff", cwd=MC)
    if rc != 0:
        res["error"] = "patch does not apply: " + out[-300:]
        print(json.dumps(res, indent=1)); return 1
    rc1, out1 = sh(cmd, cwd=MC)
    res["demo_with_patch"] = {"rc": rc1, "tail": out1.strip().splitlines()[-6:]}
    os.remove(f"{MC}/{dest}")
    rc2, out2 = sh("cargo nextest run --workspace --no-fail-fast --offline --test-threads 8 2>&1 | grep -E '^\\s+(Summary|FAIL|TIMEOUT|SIGABRT)' | sort -u", cwd=MC)
    res["existing_suite_with_patch"] = out2.strip().splitlines()
    suite_ok = "281 passed" in out2 and all(("https_works" in l or "wss_works" in l or "Summary" in l) for l in out2.strip().splitlines())
    sh(f"git -C {MC} checkout -q -- .")
    checks = {}
    for p in props:
        rc3, out3 = sh(f"/verif/tools/run_on_mutant.sh {d}/patch.diff {p}")
        lines = [l for l in out3.splitlines() if "VIOLATION" in l or "quick:" in l]
        checks[p] = {"detected": any("VIOLATION" in l for l in lines), "lines": lines[:3]}
    res["checks"] = checks
    confirmed = (rc0 == 0 and rc1 != 0 and suite_ok)
    res["confirmed"] = confirmed
    out_dir = f"/verif/seeded/{mid}"
    os.makedirs(out_dir, exist_ok=True)
    shutil.copy(f"{d}/patch.diff", out_dir)
    shutil.copy(f"{d}/demo.rs", out_dir)
    meta2 = {
        "id": mid, "property": meta["property"], "title": meta.get("title"),
        "what_it_breaks": meta.get("what_it_breaks"), "needs_to_manifest": meta.get("needs_to_manifest"),
        "files_changed": meta.get("files_changed"), "demo": demo,
        "confirmed_by_lead": {
            "worktree": MC, "repo_head": head,
            "demo_without_patch": res["demo_without_patch"], "demo_with_patch": res["demo_with_patch"],
            "existing_suite_with_patch": res["existing_suite_with_patch"], "confirmed": confirmed,
        },
        "checks_run_on_mutant": checks,
    }
    json.dump(meta2, open(f"{out_dir}/meta.json", "w"), indent=1)
    print(mid, "confirmed" if confirmed else "NOT CONFIRMED", {p: c["detected"] for p, c in checks.items()})
    return 0

if __name__ == "__main__":
    sys.exit(main())
