#!/usr/bin/env python3
"""Regenerate the detection matrix in DESIGN.md (between DETECTION_TABLE_BEGIN/END) from seeded/*/meta.json."""
import glob, json, re
rows = []
for f in sorted(glob.glob("/verif/seeded/*/meta.json")):
    m = json.load(open(f))
    prop = m["property"]
    c = m.get("checks_run_on_mutant", {}).get(prop, {})
    det = c.get("detected")
    nf = any("no-failing-input-found" in l for l in c.get("lines", []))
    first = m.get("detection_history", [{}])[0].get("detected", det) if m.get("detection_history") else det
    when = m.get("history") or ("first run" if first else "")
    title = m["title"].replace("|", "/")
    if len(title) > 110:
        title = title[:107] + "..."
    d = "yes" + (" (no-failing-input-found)" if nf else "") if det else ("**no**" if det is False else "?")
    kind = m.get("kind", "breaking")
    rows.append(f"| {m['id']} | {title} | {d} | {when} |")
tbl = "| id | seeded change | detected by `./check <prop>` | when |\n|---|---|---|---|\n" + "\n".join(rows) + "\n"
p = "/verif/DESIGN.md"
s = open(p).read()
a = s.index("<!-- DETECTION_TABLE_BEGIN -->") + len("<!-- DETECTION_TABLE_BEGIN -->\n")
b = s.index("<!-- DETECTION_TABLE_END -->")
s = s[:a] + tbl + "\n" + s[b:]
open(p, "w").write(s)
print(len(rows), "rows")
