#!/usr/bin/env python3
"""Regenerate the detection matrix in DESIGN.md (between DETECTION_TABLE_BEGIN/END) from seeded/*/meta.json."""
import glob, json, re
rows = []
for f in sorted(glob.glob("/verif/seeded/*/meta.json")):
    m = json.load(open(f))
    prop = m["property"]
    c = m.get("checks_run_on_mutant", {}).get(prop, {})
    det = c.get("detected")
    nf = any("no-failing-input-found" in l for l in c.get("lines", []))
    first = m.get("detection_history", [{}])[0].get("detected", det) if m.get("detection_history") else det
    when = m.get("history") or ("first run" if first else "")
    title = m["title"].replace("|", "/")
    if len(title) > 110:
        title = title[:107] + "..."
    d = "yes" + (" (no-failing-input-found)" if nf else "") if det else ("**no**" if det is False else "?")
    kind = m.get("kind", "breaking")
    rows.append(f"| {m['id']} | {title} | {d} | {when} |")
tbl = "| id | seeded change | detected by `./check <prop>` | when |\n|---|---|---|---|\n" + "\n".join(rows) + "\n"
p = "/verif/DESIGN.md"
s = open(p).read()
a = s.index("<!-- DETECTION_TABLE_BEGIN -->") + len("<!-- DETECTION_TABLE_BEGIN -->\n")
b = s.index("<!-- DETECTION_TABLE_END -->")
s = s[:a] + tbl + "\n" + s[b:]
open(p, "w").write(s)
readme = """# Seeded changes

Written by sub-agents that saw only the property text and a scratch worktree of /repo (nothing from /verif).
Each directory: `patch.diff`, `demo.rs` (fails with the patch, passes without), `meta.json` (what it breaks, what it needs to
manifest, the lead's confirmation run, the check lines observed on the mutant, detection history).
Re-run one: `tools/recheck_seeded.py <id>`; ad hoc: `tools/run_on_mutant.sh seeded/<id>/patch.diff <prop>` (never touches /repo).
`benign/` holds behaviour-preserving changes used as a false-alarm test (`tools/run_benign.sh seeded/benign`).

""" + tbl
open("/verif/seeded/README.md", "w").write(readme)
print(len(rows), "rows")
