#!/usr/bin/env python3
"""Writes /verif/MANIFEST.json from tools/manifest_src.json + lean/obligations.json (claimed = has obligations)."""
import json
src = json.load(open('/verif/tools/manifest_src.json'))
obs = json.load(open('/verif/lean/obligations.json'))
props = [json.loads(l) for l in open('/verif/properties.jsonl')]
checks = []
na = []
for p in props:
    pid = p['id']
    meta = src['props'].get(pid, {})
    if pid in obs and not meta.get('unclaimed'):
        checks.append({
            "property_id": pid,
            "quick_cmd": f"./check {pid} --tier quick",
            "thorough_cmd": f"./check {pid} --tier thorough",
            "evidence_file": f"/verif/evidence/{pid}.json",
            "replay_cmd_template": f"./check {pid} --replay {{path}}",
            "engine": "lean4-proof+correspondence",
            "level_claimed": {
                "category": "proof",
                "text": meta.get('text', ''),
                "design_ref": f"DESIGN.md §6 {pid}",
            },
            "level_note": meta.get('note', ''),
            "technique": meta.get('technique', "Lean 4 theorems over a hand-written/generated model + differential correspondence with the real code"),
        })
    else:
        na.append({"property_id": pid, "reason": meta.get('na_reason', "check not built yet in this framework (work in progress); no claim is made")})
m = {
    "version": 1,
    "setup_cmd": "./check --setup",
    "hooks": src['hooks'],
    "engines": src['engines'],
    "checks": checks,
    "notes": src['notes'],
    "not_applicable": na,
}
json.dump(m, open('/verif/MANIFEST.json', 'w'), indent=1)
print(f"claimed {len(checks)}, not claimed {len(na)}")
