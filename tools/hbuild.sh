#!/bin/bash
# Build one harness binary exactly the way ./check does (same RUSTFLAGS / target dir / family feature,
# so no rebuild thrash).   usage: tools/hbuild.sh c13
cd /verif/harness || exit 2
case "$1" in
  srv) FEAT="--features fam-server" ;;
  c04|c06) FEAT="--features fam-subs" ;;
  c03|c05|c09|c12|c18) FEAT="--features fam-client" ;;
  c10|c11) FEAT="--features fam-conn" ;;
  *) FEAT="" ;;
esac
export CARGO_NET_OFFLINE=true
mkdir -p /verif/.build
if [ "$1" = "c18" ]; then
  export RUSTFLAGS="--cfg jsonrpsee_verif --check-cfg cfg(jsonrpsee_verif)"
  export CARGO_TARGET_DIR=/verif/.build/target-hook
else
  export RUSTFLAGS="--check-cfg cfg(jsonrpsee_verif)"
  export CARGO_TARGET_DIR=/verif/.build/target
fi
exec flock /verif/.build/cargo.lock cargo build --release --offline --bin "$1" $FEAT
