#!/bin/bash
# Build one harness binary exactly the way ./check does (same RUSTFLAGS / target dir, so no rebuild thrash).
# usage: tools/hbuild.sh c13
cd /verif/harness || exit 2
export RUSTFLAGS="--cfg jsonrpsee_verif --check-cfg cfg(jsonrpsee_verif)"
export CARGO_NET_OFFLINE=true
export CARGO_TARGET_DIR=/verif/.build/target
mkdir -p /verif/.build
exec flock /verif/.build/cargo.lock cargo build --release --offline --bin "$1"
