#!/bin/bash
# Build lean targets under the same lock ./check uses.  usage: tools/lbuild.sh JrpcVerif.Theorems.C13 jrpc_model
cd /verif/lean || exit 2
mkdir -p /verif/.build
exec flock /verif/.build/lake.lock lake build "$@"
