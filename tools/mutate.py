#!/usr/bin/env python3
"""Mechanical mutation of the source files the properties are anchored in.

  tools/mutate.py gen <outdir> [--per-file N] [--seed S]     write <outdir>/m<k>/patch.diff + meta.json
  tools/mutate.py run <outdir> <slot> <k0> <k1>               evaluate mutants k0..k1-1 in scratch slot <slot>

`run`, per mutant: apply to a scratch worktree of /repo, run all 20 checks of the *committed* /verif on it
(tools/run_on_mutant.sh, MUT_FROM_HEAD); classify
  nocompile   every check reports that the harness no longer builds
  killed      some check prints VIOLATION (which ones is recorded)
  survived    no check alarms -> the existing test suite is run on the mutant:
      tests-kill   the suite fails (such a mutant is outside the task's scope: the tests catch it)
      SURVIVOR     compiles, passes the existing tests and no check alarms -> needs triage
                   (equivalent mutant? outside every property? or a gap in a check)
Results are appended to <outdir>/results.jsonl.  Nothing here is used by the registered checks.
"""
import json, os, random, re, subprocess, sys

REPO = "/repo"
FILES = [
    "types/src/params.rs", "types/src/request.rs", "types/src/response.rs", "types/src/error.rs",
    "core/src/params.rs", "core/src/traits.rs", "core/src/http_helpers.rs",
    "core/src/server/helpers.rs", "core/src/server/rpc_module.rs", "core/src/server/subscription.rs",
    "core/src/server/method_response.rs",
    "core/src/client/mod.rs", "core/src/client/async_client/mod.rs", "core/src/client/async_client/manager.rs",
    "core/src/client/async_client/helpers.rs", "core/src/client/async_client/utils.rs",
    "server/src/server.rs", "server/src/transport/http.rs", "server/src/transport/ws.rs",
    "server/src/middleware/rpc.rs", "server/src/middleware/http/host_filter.rs",
    "server/src/middleware/http/authority.rs", "server/src/future.rs", "server/src/utils.rs",
    "client/http-client/src/client.rs", "client/http-client/src/rpc_service.rs",
    "proc-macros/src/render_client.rs", "proc-macros/src/render_server.rs", "proc-macros/src/helpers.rs",
]

OPS = [
    (r"(?<![<>=!-])<=(?!=)", "<", "le->lt"), (r"(?<![<>=!-])>=(?!=)", ">", "ge->gt"),
    (r"(?<=\s)<(?=\s)(?!=)", "<=", "lt->le"), (r"(?<=\s)>(?=\s)(?!=)", ">=", "gt->ge"),
    (r"==", "!=", "eq->ne"), (r"!=", "==", "ne->eq"),
    (r"&&", "||", "and->or"), (r"\|\|(?!\s*\{)", "&&", "or->and"),
    (r"\btrue\b", "false", "true->false"), (r"\bfalse\b", "true", "false->true"),
    (r"\+ 1\b", "+ 0", "plus1->plus0"), (r"- 1\b", "- 0", "minus1->minus0"),
    (r"(?<![\w.])!(?=[a-zA-Z_(])(?!\()", "", "drop-not"),
    (r"\bis_some\(\)", "is_none()", "is_some->is_none"), (r"\bis_none\(\)", "is_some()", "is_none->is_some"),
    (r"\bis_ok\(\)", "is_err()", "is_ok->is_err"), (r"\bis_err\(\)", "is_ok()", "is_err->is_ok"),
    (r"\bis_empty\(\)", "len() == 1", "is_empty->len1"),
    (r"\b128\b", "127", "128->127"), (r"\b1024\b", "1023", "1024->1023"),
    (r"\bsaturating_sub\b", "wrapping_sub", "sat->wrap"), (r"\bchecked_add\b", "checked_sub", "add->sub"),
    (r"\bmin\(", "max(", "min->max"), (r"\bmax\(", "min(", "max->min"),
    (r"\bcontinue;", "break;", "continue->break"), (r"\bbreak;", "continue;", "break->continue"),
]
# operators computed from the match (batch 3): negate an `if` condition, bump an integer literal
FUNC_OPS = [
    (r"\bif (?!let\b)([^{};]+?) \{$", lambda m: f"if !({m.group(1)}) {{", "negate-if"),
    (r"(?<![\w.\"'#])(\d{1,6})(?![\w.\"'])", lambda m: str(int(m.group(1)) + 1), "int+1"),
]
DELETABLE = re.compile(r"^\s*(?:self\.|[a-z_]+\.)[\w.]*(?:remove|insert|push|release|clear|close|send|notify|drop|retain|truncate|extend)\w*\(.*\);\s*$")


def code_lines(path):
    """(index, line) of lines that are code: outside #[cfg(test)] modules, not comments / docs / logging / attrs."""
    src = open(os.path.join(REPO, path), encoding="utf-8").read().split("\n")
    out = []
    in_test = False
    for i, l in enumerate(src):
        s = l.strip()
        if s.startswith("#[cfg(test)]"):
            in_test = True
        if in_test:
            continue
        if not s or s.startswith("//") or s.startswith("#[") or s.startswith("#!") or s.startswith("use ") or s.startswith("*"):
            continue
        if "tracing::" in l or "debug_assert" in l or "panic!(" in l or "unreachable!(" in l or ".expect(" in l or "jsonrpsee_verif" in l:
            continue
        code = l.split("//")[0]
        out.append((i, code))
    return src, out


def gen(outdir, per_file, seed):
    rng = random.Random(seed)
    os.makedirs(outdir, exist_ok=True)
    k = 0
    for path in FILES:
        src, lines = code_lines(path)
        cands = []
        for i, code in lines:
            # skip string literals' insides roughly: only mutate outside quotes
            for rx, rep, name in OPS:
                for m in re.finditer(rx, code):
                    if code[: m.start()].count('"') % 2 == 1:
                        continue
                    new = code[: m.start()] + rep + code[m.end():] + src[i][len(code):]
                    cands.append((i, new, name))
            if os.environ.get("MUTATE_FUNC_OPS"):
                for rx, fn, name in FUNC_OPS:
                    for m in re.finditer(rx, code.rstrip()):
                        if code[: m.start()].count('"') % 2 == 1:
                            continue
                        c2 = code.rstrip()
                        new = c2[: m.start()] + fn(m) + c2[m.end():] + src[i][len(code):]
                        cands.append((i, new, name))
            if DELETABLE.match(code) and "let " not in code:
                cands.append((i, re.match(r"^\s*", code).group(0) + "// (deleted) " + code.strip(), "delete-stmt"))
        rng.shuffle(cands)
        seen_lines = set()
        picked = []
        for c in cands:
            if c[0] in seen_lines:
                continue
            seen_lines.add(c[0])
            picked.append(c)
            if len(picked) >= per_file:
                break
        for i, new, name in picked:
            d = f"{outdir}/m{k}"
            os.makedirs(d, exist_ok=True)
            mutated = list(src)
            mutated[i] = new
            a = f"/tmp/mutate_a_{os.getpid()}"
            b = f"/tmp/mutate_b_{os.getpid()}"
            open(a, "w").write("\n".join(src))
            open(b, "w").write("\n".join(mutated))
            diff = subprocess.run(["diff", "-u", "--label", f"a/{path}", "--label", f"b/{path}", a, b], capture_output=True, text=True).stdout
            open(f"{d}/patch.diff", "w").write(f"diff --git a/{path} b/{path}\n" + diff)
            json.dump({"k": k, "file": path, "line": i + 1, "op": name, "before": src[i].strip(), "after": new.strip()}, open(f"{d}/meta.json", "w"), indent=1)
            k += 1
    print("mutants:", k)


ALL = ["C%02d" % i for i in range(1, 21)]


def run(outdir, slot, k0, k1):
    outdir = os.path.abspath(outdir)
    env = dict(os.environ, MUT_SLOT=str(slot), MUT_FROM_HEAD="1")
    mw = f"/tmp/mw{slot}"
    for k in range(k0, k1):
        d = f"{outdir}/m{k}"
        if not os.path.exists(f"{d}/patch.diff") or os.path.exists(f"{d}/result.json"):
            continue
        meta = json.load(open(f"{d}/meta.json"))
        p = subprocess.run(["/verif/tools/run_on_mutant.sh", f"{d}/patch.diff"] + ALL, capture_output=True, text=True, env=env)
        out = p.stdout
        res = dict(meta)
        if "PATCH DOES NOT APPLY" in out:
            res["verdict"] = "noapply"
        else:
            alarms = sorted(set(re.findall(r"VIOLATION property=(C\d+)", out)))
            # harness-build failures show as VIOLATION ... harness-build.case
            hb = sorted(set(re.findall(r"VIOLATION property=(C\d+) replay=\S*harness-build", out)))
            res["alarms"] = alarms
            if len(hb) >= 15:
                res["verdict"] = "nocompile"
            elif alarms:
                res["verdict"] = "killed"
                res["no_failing_input_only"] = all(re.search(r"VIOLATION property=" + a + r" [^\n]*no-failing-input-found", out) and not re.search(r"VIOLATION property=" + a + r" replay=\S+\n", out) for a in alarms)
            else:
                # survived the checks: does the existing suite catch it?
                subprocess.run(["git", "-C", mw, "checkout", "-q", "--", "."])
                subprocess.run(["git", "-C", mw, "apply", f"{d}/patch.diff"])
                tenv = dict(os.environ, CARGO_NET_OFFLINE="true", CARGO_TARGET_DIR=f"/tmp/mt{slot}")
                crate_of = {"types": "jsonrpsee-types", "core": "jsonrpsee-core", "server": "jsonrpsee-server", "client": "jsonrpsee-http-client", "proc-macros": "jsonrpsee-proc-macros"}
                top = meta["file"].split("/")[0]
                pk = ["-p", crate_of[top], "-p", "jsonrpsee-integration-tests", "-p", "jsonrpsee"]
                if top in ("types", "core"):
                    pk += ["-p", "jsonrpsee-server", "-p", "jsonrpsee-ws-client", "-p", "jsonrpsee-http-client", "-p", "jsonrpsee-core"]
                t = subprocess.run(["timeout", "1200", "cargo", "nextest", "run", "--offline", "--no-fail-fast"] + pk, cwd=mw, env=tenv, capture_output=True, text=True)
                if t.returncode == 124:
                    subprocess.run(["pkill", "-f", f"/tmp/mt{slot}/debug/deps/"])
                    t = subprocess.CompletedProcess(t.args, 1, "Summary [ timeout ]\n        FAIL [ timeout ] (1/1) suite hung\n", "")
                fails = sorted(set(re.findall(r"^\s+FAIL \[[^\]]*\] (?:\([^)]*\) )?(\S+ \S+)", t.stdout + t.stderr, flags=re.M)))
                fails = [f for f in fails if "https_works" not in f and "wss_works" not in f]
                built = "Summary [" in (t.stdout + t.stderr)
                subprocess.run(["git", "-C", mw, "checkout", "-q", "--", "."])
                if not built:
                    res["verdict"] = "tests-nobuild"
                elif fails:
                    res["verdict"] = "tests-kill"
                    res["failing_tests"] = fails[:5]
                else:
                    res["verdict"] = "SURVIVOR"
        json.dump(res, open(f"{d}/result.json", "w"), indent=1)
        with open(f"{outdir}/results.jsonl", "a") as f:
            f.write(json.dumps(res) + "\n")
        print(k, res["verdict"], res.get("alarms"), meta["file"], meta["line"], meta["op"], flush=True)


if __name__ == "__main__":
    if sys.argv[1] == "gen":
        per = int(sys.argv[sys.argv.index("--per-file") + 1]) if "--per-file" in sys.argv else 8
        seed = int(sys.argv[sys.argv.index("--seed") + 1]) if "--seed" in sys.argv else 1
        gen(sys.argv[2], per, seed)
    else:
        run(sys.argv[2], sys.argv[3], int(sys.argv[4]), int(sys.argv[5]))
