#!/usr/bin/env python3
"""Summarise the mechanical mutation experiment (.build/mutants/*/result.json + seeded/mechanical/triage.json)
into seeded/mechanical/{results.jsonl,SUMMARY.md}."""
import collections, glob, json, os
res = []
for b, d in (("1", "mutants"), ("2", "mutants2"), ("3", "mutants3"), ("4", "mutants4")):
    for f in glob.glob(f"/verif/.build/{d}/m*/result.json"):
        r = json.load(open(f))
        if r["verdict"].startswith("duplicate"):
            continue
        r["key"] = f"{b}:{r['k']}"
        res.append(r)
res.sort(key=lambda r: (r["key"].split(":")[0], r["k"]))
tri = json.load(open("/verif/seeded/mechanical/triage.json"))
with open("/verif/seeded/mechanical/results.jsonl", "w") as f:
    for r in res:
        f.write(json.dumps(r) + "\n")
c = collections.Counter(r["verdict"] for r in res)
surv = [r for r in res if r["verdict"] == "SURVIVOR"]
cls = collections.Counter(tri.get(r["key"], {}).get("class", "untriaged") for r in surv)
relevant = c["killed"] + len(surv)
L = ["# Mechanical mutation experiment", "",
     f"{len(res)} single-token mutants (relational / boolean / constant / deleted-statement operators, four batches of `tools/mutate.py gen`; the third and fourth add negate-if and integer+1; duplicates across batches dropped) of the 29 source files the properties are anchored in; each evaluated by all 20 checks of the committed /verif on a scratch worktree, survivors then by the existing test suite.", "",
     "| verdict | mutants |", "|---|---|",
     f"| does not compile | {c['nocompile']} |",
     f"| killed by at least one check | {c['killed']} |",
     f"| survived the checks, killed by the existing tests (outside the task's scope) | {c['tests-kill']} |",
     f"| survived both | {len(surv)} |", "",
     "Survivors after triage: " + ", ".join(f"{v} {k}" for k, v in sorted(cls.items())) + ".", "",
     "| batch:mutant | file:line | operator | class | note |", "|---|---|---|---|---|"]
for r in surv:
    t = tri.get(r["key"], {})
    L.append(f"| {r['key']} | {r['file']}:{r['line']} | {r['op']} | {t.get('class','untriaged')} | {t.get('note','')} |")
L += ["", "Checks that killed the most mutants: " + ", ".join(f"{k} {v}" for k, v in collections.Counter(a for r in res if r["verdict"] == "killed" for a in r.get("alarms", [])).most_common(20)) + "."]
open("/verif/seeded/mechanical/SUMMARY.md", "w").write("\n".join(L) + "\n")
print("\n".join(L[:14]))
