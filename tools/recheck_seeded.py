#!/usr/bin/env python3
"""Re-run the check of a seeded change's property on the mutated tree and record the outcome.
usage: tools/recheck_seeded.py <seeded-id> [--note "history note"]   (MUT_SLOT env selects scratch slot)"""
import json, os, subprocess, sys
sid = sys.argv[1]
note = None
if "--note" in sys.argv:
    note = sys.argv[sys.argv.index("--note") + 1]
d = f"/verif/seeded/{sid}"
m = json.load(open(f"{d}/meta.json"))
prop = m["property"]
env = dict(os.environ)
env.setdefault("MUT_SLOT", "")
out = subprocess.run(["/verif/tools/run_on_mutant.sh", f"{d}/patch.diff", prop], capture_output=True, text=True, errors="replace", env=env).stdout
lines = [l for l in out.splitlines() if "VIOLATION" in l or "quick:" in l]
det = any("VIOLATION" in l for l in lines)
prev = m.get("checks_run_on_mutant", {}).get(prop, {})
hist = m.get("detection_history", [])
if prev and not hist:
    hist.append({"run": 1, "detected": prev.get("detected")})
hist.append({"run": len(hist) + 1, "detected": det, **({"note": note} if note else {})})
m["detection_history"] = hist
m.setdefault("checks_run_on_mutant", {})[prop] = {"detected": det, "lines": [l[:300] for l in lines[:6]]}
if note:
    m["history"] = note
json.dump(m, open(f"{d}/meta.json", "w"), indent=1, ensure_ascii=False)
print(sid, prop, "detected" if det else "MISSED")
