#!/bin/bash
# Run every check on each behaviour-preserving change in <dir>/B-*/patch.diff (committed /verif state).
# usage: MUT_SLOT=n tools/run_benign.sh /tmp/mut-K/out > log
DIR=$1
export MUT_FROM_HEAD=1
for d in $(ls -d $DIR/${BENIGN_GLOB:-B*} | sort -V); do
  id=$(basename $d)
  out=$(/verif/tools/run_on_mutant.sh $d/patch.diff C01 C02 C03 C04 C05 C06 C07 C08 C09 C10 C11 C12 C13 C14 C15 C16 C17 C18 C19 C20 2>&1)
  alarms=$(echo "$out" | grep -c "^VIOLATION")
  echo "### $id alarms=$alarms"
  echo "$out" | grep -E "^VIOLATION|PATCH DOES NOT APPLY" | cut -c1-200
done
