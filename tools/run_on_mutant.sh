#!/bin/bash
# Run checks against a MUTATED copy of /repo without touching /repo or /verif:
#   tools/run_on_mutant.sh <patch.diff> <prop> [<prop> ...]
# Creates (and re-uses) a git worktree of /repo at /tmp/mw and a relocated copy of /verif at /tmp/mv
# (paths rewritten), applies the patch to /tmp/mw, runs /tmp/mv/check <prop>, then reverts the patch.
set -u
PATCH=$(realpath "$1"); shift
SLOT=${MUT_SLOT:-}; MW=/tmp/mw$SLOT; MV=/tmp/mv$SLOT
if [ ! -d $MW ]; then git -C /repo worktree add --detach $MW HEAD >/dev/null 2>&1 || exit 2; fi
git -C $MW checkout -q --detach "$(git -C /repo rev-parse HEAD)" 2>/dev/null
git -C $MW checkout -q -- . ; git -C $MW clean -fdq -e target
mkdir -p $MV
if [ -n "${MUT_FROM_HEAD:-}" ]; then
  # the committed state of /verif only (ignores work in progress of concurrently working agents, tracked or
  # not); build caches (lean/.lake, .build/target*) are kept in the copy / seeded from /verif once.
  # tar -m: fresh mtimes so that cargo rebuilds whatever differs from the cached build
  EXP=$MV.export; rm -rf $EXP; mkdir -p $EXP
  git -C /verif archive HEAD | tar -x -m -C $EXP
  # relocate paths in the export, then copy only what differs by CONTENT (unchanged files keep their
  # mtime in the copy, so cargo / lake rebuild only what really changed)
  grep -rlE "/verif|/repo" $EXP/check $EXP/tools $EXP/harness/Cargo.toml $EXP/harness/.cargo/config.toml $EXP/harness/src 2>/dev/null | while read f; do
    sed -i "s#/verif#$MV#g; s#/repo#$MW#g" "$f"
  done
  cp $MW/Cargo.lock $EXP/harness/Cargo.lock 2>/dev/null
  rsync -rlpgoD --checksum --delete --exclude lean/.lake --exclude .build $EXP/ $MV/
  rm -rf $EXP
  if [ ! -d $MV/lean/.lake ]; then cp -r /verif/lean/.lake $MV/lean/.lake 2>/dev/null; fi
else
  rsync -a --delete --exclude .git --exclude .build/target --exclude .build/target-hook --exclude .build/run --exclude .build/replays /verif/ $MV/
fi
mkdir -p $MV/.build
if [ ! -d $MV/.build/target ]; then cp -r /verif/.build/target $MV/.build/target 2>/dev/null; fi
if [ ! -d $MV/.build/target-hook ]; then cp -r /verif/.build/target-hook $MV/.build/target-hook 2>/dev/null; fi
rm -rf $MV/.build/replays $MV/.build/run
# relocate paths
grep -rlE "/verif|/repo" $MV/check $MV/tools $MV/harness/Cargo.toml $MV/harness/.cargo/config.toml $MV/harness/src 2>/dev/null | while read f; do
  sed -i "s#/verif#$MV#g; s#/repo#$MW#g" "$f"
done
cp $MW/Cargo.lock $MV/harness/Cargo.lock 2>/dev/null
if ! git -C $MW apply "$PATCH"; then echo "PATCH DOES NOT APPLY"; exit 3; fi
rc=0
for P in "$@"; do
  echo "=== $P on mutant $(basename $(dirname $PATCH))"
  (cd $MV && VERIF_REPO=$MW ./check $P > $MV/.build/last_$P.log 2>&1; grep -E "quick:|thorough:" $MV/.build/last_$P.log | cut -c1-260 | head -2; grep -E "VIOLATION" $MV/.build/last_$P.log | cut -c1-260 | head -4; grep -E "DISAGREE|ORACLE-FAIL|AUDIT|error" -A1 $MV/.build/last_$P.log | cut -c1-260 | head -8)
done
git -C $MW checkout -q -- .
