#!/usr/bin/env python3
"""
Translator: /repo sources  ->  /verif/lean/JrpcVerif/Gen/*.lean   (run on every check).

Only table- and wiring-like code is translated (see DESIGN.md §1):
  * ErrorCodes   : types/src/error.rs  (*_CODE constants, ErrorCode::code arms, From<i32> arms, enum variants)
  * ContentTypes : server/src/transport/http.rs  (is_json)
  * DefaultPorts : server/src/middleware/http/authority.rs (default_port)
  * Wiring       : which ServerConfig field reaches which limit at each entry point

Each generated file records `translatorOk : Bool`.  When a source pattern is not recognised the
file still type-checks but `translatorOk = false`, and the theorem `*_translator_ok` in the
property's theorem file fails (a broken obligation, reported by ./check).

Files are only rewritten when their content changes, so lake does not rebuild needlessly.
"""
import json
import os
import re
import sys

REPO = os.environ.get("VERIF_REPO", "/repo")
GEN = "/verif/lean/JrpcVerif/Gen"


def read(rel):
    with open(os.path.join(REPO, rel), encoding="utf-8") as f:
        return f.read()


def strip_comments(src):
    src = re.sub(r"/\*.*?\*/", "", src, flags=re.S)
    return re.sub(r"//[^\n]*", "", src)


def write_if_changed(path, text):
    old = None
    if os.path.exists(path):
        with open(path, encoding="utf-8") as f:
            old = f.read()
    if old != text:
        with open(path, "w", encoding="utf-8") as f:
            f.write(text)


def lean_int(n):
    return f"({n})" if n < 0 else str(n)


def find_block(src, header_re):
    """Return the text of the brace block that follows the first match of header_re."""
    m = re.search(header_re, src)
    if not m:
        return None
    i = src.find("{", m.end() - 1)
    if i < 0:
        return None
    depth = 0
    for j in range(i, len(src)):
        if src[j] == "{":
            depth += 1
        elif src[j] == "}":
            depth -= 1
            if depth == 0:
                return src[i + 1 : j]
    return None


# ------------------------------------------------------------------------------------------------
def gen_error_codes(info):
    rel = "types/src/error.rs"
    src = strip_comments(read(rel))
    problems = []
    consts = {m.group(1): int(m.group(2)) for m in re.finditer(r"pub const (\w+_CODE): i32 = (-?\d+);", src)}
    enum_body = find_block(src, r"pub enum ErrorCode\s*\{")
    variants = []
    if enum_body is None:
        problems.append("enum ErrorCode not found")
    else:
        for m in re.finditer(r"^\s*(\w+)(\(i32\))?\s*,", enum_body, flags=re.M):
            variants.append((m.group(1), bool(m.group(2))))
    named = [v for v, payload in variants if not payload]
    payload_variants = [v for v, payload in variants if payload]
    if payload_variants != ["ServerError"]:
        problems.append(f"expected exactly one payload variant ServerError, got {payload_variants}")

    # fn code(&self) -> i32 { match *self { Variant => CONST, ... ServerError(code) => code } }
    code_fn = find_block(src, r"pub const fn code\(&self\) -> i32\s*\{")
    code_of = {}
    code_passthrough = False
    if code_fn is None:
        problems.append("fn code not found")
    else:
        body = find_block(code_fn, r"match \*?self\s*\{") or ""
        for arm in [a.strip() for a in body.split(",") if a.strip()]:
            m = re.fullmatch(r"(\w+)\s*=>\s*(\w+)", arm)
            m2 = re.fullmatch(r"ServerError\((\w+)\)\s*=>\s*(\w+)", arm)
            if m2:
                code_passthrough = m2.group(1) == m2.group(2)
                if not code_passthrough:
                    problems.append(f"code(): ServerError arm is not the identity: {arm}")
            elif m and m.group(2) in consts:
                code_of[m.group(1)] = consts[m.group(2)]
            elif m and re.fullmatch(r"-?\d+", m.group(2)):
                code_of[m.group(1)] = int(m.group(2))
            else:
                problems.append(f"code(): unrecognised arm {arm!r}")
    for v in named:
        if v not in code_of:
            problems.append(f"code(): no arm for {v}")

    # impl From<i32> for ErrorCode { fn from(code: i32) -> Self { match code { CONST => Variant, ..., code => ServerError(code) } } }
    from_impl = find_block(src, r"impl From<i32> for ErrorCode\s*\{")
    kind_of = []  # ordered arms (code, variant)
    default_ok = False
    if from_impl is None:
        problems.append("impl From<i32> not found")
    else:
        body = find_block(from_impl, r"match code\s*\{") or ""
        for arm in [a.strip() for a in body.split(",") if a.strip()]:
            m = re.fullmatch(r"(-?\w+)\s*=>\s*(\w+)", arm)
            m2 = re.fullmatch(r"(\w+)\s*=>\s*ServerError\((\w+)\)", arm)
            if m2:
                default_ok = m2.group(1) == m2.group(2)
                if not default_ok:
                    problems.append(f"from(): default arm is not ServerError(code): {arm}")
            elif m and m.group(1) in consts and m.group(2) in named:
                kind_of.append((consts[m.group(1)], m.group(2)))
            elif m and re.fullmatch(r"-?\d+", m.group(1)) and m.group(2) in named:
                kind_of.append((int(m.group(1)), m.group(2)))
            else:
                problems.append(f"from(): unrecognised arm {arm!r}")
        if not default_ok and not any("default arm" in p for p in problems):
            problems.append("from(): no default arm")
    if not code_passthrough and not any("ServerError arm" in p for p in problems):
        problems.append("code(): no ServerError arm")

    ok = not problems
    L = []
    L.append("/- GENERATED by /verif/tools/translate.py from types/src/error.rs — do not edit. -/")
    L.append("namespace Jrpc.Gen")
    L.append("")
    L.append(f"def errorCodesTranslatorOk : Bool := {'true' if ok else 'false'}")
    L.append("")
    L.append("inductive ErrKind where")
    for v in named:
        L.append(f"  | {v}")
    L.append("  | ServerError (c : Int)")
    L.append("  deriving DecidableEq, Repr")
    L.append("")
    L.append("/-- `ErrorCode::code` -/")
    L.append("def codeOf : ErrKind → Int")
    for v in named:
        L.append(f"  | .{v} => {lean_int(code_of.get(v, 0))}")
    L.append("  | .ServerError c => c")
    L.append("")
    L.append("/-- `impl From<i32> for ErrorCode` (first matching arm wins) -/")
    L.append("def kindOf (c : Int) : ErrKind :=")
    for code, v in kind_of:
        L.append(f"  if c = {lean_int(code)} then .{v} else")
    L.append("  .ServerError c")
    L.append("")
    L.append("/-- every variant without payload -/")
    L.append("def namedKinds : List ErrKind := [" + ", ".join("." + v for v in named) + "]")
    L.append("")
    L.append("/-- the `*_CODE` constants -/")
    L.append("def codeConstants : List (String × Int) := [")
    L.append(",\n".join(f'  ("{k}", {lean_int(v)})' for k, v in sorted(consts.items())))
    L.append("]")
    L.append("")
    L.append("def kindName : ErrKind → String")
    for v in named:
        L.append(f'  | .{v} => "{v}"')
    L.append('  | .ServerError _ => "ServerError"')
    L.append("")
    L.append("end Jrpc.Gen")
    write_if_changed(os.path.join(GEN, "ErrorCodes.lean"), "\n".join(L) + "\n")
    info["ErrorCodes"] = {
        "source": rel,
        "ok": ok,
        "problems": problems,
        "named_variants": named,
        "code_of": code_of,
        "from_arms": kind_of,
        "constants": consts,
    }


# ------------------------------------------------------------------------------------------------
GENERATORS = [gen_error_codes]


def main():
    os.makedirs(GEN, exist_ok=True)
    info = {}
    for g in GENERATORS:
        try:
            g(info)
        except Exception as e:  # a crashed generator is a failed translation, not a crashed check
            info[g.__name__] = {"ok": False, "problems": [f"exception: {e!r}"]}
    out = os.environ.get("VERIF_TRANSLATE_INFO", "/verif/.build/translate_info.json")
    os.makedirs(os.path.dirname(out), exist_ok=True)
    with open(out, "w") as f:
        json.dump(info, f, indent=1, sort_keys=True)
    bad = {k: v["problems"] for k, v in info.items() if not v.get("ok")}
    if bad:
        print("translator: unrecognised source patterns:", json.dumps(bad))
    return 0


if __name__ == "__main__":
    sys.exit(main())
