#!/usr/bin/env python3
"""
Translator: /repo sources  ->  /verif/lean/JrpcVerif/Gen/*.lean   (run on every check).

Only table- and wiring-like code is translated (see DESIGN.md §1):
  * ErrorCodes   : types/src/error.rs  (*_CODE constants, ErrorCode::code arms, From<i32> arms, enum variants)
  * ContentTypes : server/src/transport/http.rs  (is_json)
  * DefaultPorts : server/src/middleware/http/authority.rs (default_port)
  * WireFields   : types/src/{request,response,error}.rs (member names of the wire structs: serde derives + the Response visitor)
  * Wiring       : which ServerConfig field reaches which limit at each entry point

Each generated file records `translatorOk : Bool`.  When a source pattern is not recognised the
file still type-checks but `translatorOk = false`, and the theorem `*_translator_ok` in the
property's theorem file fails (a broken obligation, reported by ./check).

Files are only rewritten when their content changes, so lake does not rebuild needlessly.
"""
import json
import os
import re
import sys

REPO = os.environ.get("VERIF_REPO", "/repo")
GEN = os.environ.get("VERIF_GEN", "/verif/lean/JrpcVerif/Gen")


def read(rel):
    with open(os.path.join(REPO, rel), encoding="utf-8") as f:
        return f.read()


def strip_comments(src):
    src = re.sub(r"/\*.*?\*/", "", src, flags=re.S)
    return re.sub(r"//[^\n]*", "", src)


def write_if_changed(path, text):
    old = None
    if os.path.exists(path):
        with open(path, encoding="utf-8") as f:
            old = f.read()
    if old != text:
        with open(path, "w", encoding="utf-8") as f:
            f.write(text)


def lean_int(n):
    return f"({n})" if n < 0 else str(n)


import ast as _ast


def eval_int(expr, env):
    """Evaluate a Rust integer constant expression (literals with `_`/type suffix, + - * << parentheses,
    names from env, `as <type>` casts ignored).  Returns None when it is anything else."""
    e = re.sub(r"\bas\s+[iu](?:8|16|32|64|128|size)\b", "", expr)
    e = re.sub(r"(?<=\d)_(?=\d)", "", e)
    e = re.sub(r"(\d)(?:_?[iu](?:8|16|32|64|128|size))\b", r"\1", e)
    try:
        tree = _ast.parse(e.strip(), mode="eval")
    except SyntaxError:
        return None

    def ev(n):
        if isinstance(n, _ast.Expression):
            return ev(n.body)
        if isinstance(n, _ast.Constant) and isinstance(n.value, int) and not isinstance(n.value, bool):
            return n.value
        if isinstance(n, _ast.Name):
            return env.get(n.id)
        if isinstance(n, _ast.UnaryOp) and isinstance(n.op, _ast.USub):
            v = ev(n.operand)
            return None if v is None else -v
        if isinstance(n, _ast.BinOp) and isinstance(n.op, (_ast.Add, _ast.Sub, _ast.Mult, _ast.LShift)):
            a, b = ev(n.left), ev(n.right)
            if a is None or b is None:
                return None
            return {_ast.Add: a + b, _ast.Sub: a - b, _ast.Mult: a * b, _ast.LShift: a << b}[type(n.op)]
        return None

    return ev(tree)


def int_consts(src, name_re=r"\w+", ty=r"[iu](?:8|16|32|64|size)"):
    """All `const NAME: <int type> = <constant expression>;` of a file, evaluated (to a fixpoint, so
    constants may be written in terms of each other)."""
    raw = {m.group(1): m.group(2) for m in re.finditer(r"(?:pub(?:\([^)]*\))? )?const (" + name_re + r"): " + ty + r" = ([^;]+);", src)}
    env = {}
    for _ in range(len(raw) + 1):
        for k, e in raw.items():
            if k not in env:
                v = eval_int(e, env)
                if v is not None:
                    env[k] = v
    return env


def find_block(src, header_re):
    """Return the text of the brace block that follows the first match of header_re."""
    m = re.search(header_re, src)
    if not m:
        return None
    i = src.find("{", m.end() - 1)
    if i < 0:
        return None
    depth = 0
    for j in range(i, len(src)):
        if src[j] == "{":
            depth += 1
        elif src[j] == "}":
            depth -= 1
            if depth == 0:
                return src[i + 1 : j]
    return None


# ------------------------------------------------------------------------------------------------
def gen_error_codes(info):
    rel = "types/src/error.rs"
    src = strip_comments(read(rel))
    problems = []
    allc = int_consts(src, ty="i32")
    consts = {k: v for k, v in allc.items() if k.endswith("_CODE")}
    enum_body = find_block(src, r"pub enum ErrorCode\s*\{")
    variants = []
    if enum_body is None:
        problems.append("enum ErrorCode not found")
    else:
        for m in re.finditer(r"^\s*(\w+)(\(i32\))?\s*,", enum_body, flags=re.M):
            variants.append((m.group(1), bool(m.group(2))))
    named = [v for v, payload in variants if not payload]
    payload_variants = [v for v, payload in variants if payload]
    if payload_variants != ["ServerError"]:
        problems.append(f"expected exactly one payload variant ServerError, got {payload_variants}")

    # fn code(&self) -> i32 { match *self { Variant => CONST, ... ServerError(code) => code } }
    code_fn = find_block(src, r"pub const fn code\(&self\) -> i32\s*\{")
    code_of = {}
    code_passthrough = False
    if code_fn is None:
        problems.append("fn code not found")
    else:
        body = find_block(code_fn, r"match \*?self\s*\{") or ""
        for arm in [re.sub(r"\b(?:ErrorCode|Self)::", "", a.strip()) for a in body.split(",") if a.strip()]:
            m = re.fullmatch(r"(\w+)\s*=>\s*(\w+)", arm)
            m2 = re.fullmatch(r"ServerError\((\w+)\)\s*=>\s*(\w+)", arm)
            if m2:
                code_passthrough = m2.group(1) == m2.group(2)
                if not code_passthrough:
                    problems.append(f"code(): ServerError arm is not the identity: {arm}")
            elif re.fullmatch(r"ServerError\((?:ref\s+)?(\w+)\)\s*=>\s*\*\s*\1", arm):
                code_passthrough = True
            elif m and m.group(2) in consts:
                code_of[m.group(1)] = consts[m.group(2)]
            elif m and eval_int(m.group(2), allc) is not None:
                code_of[m.group(1)] = eval_int(m.group(2), allc)
            else:
                problems.append(f"code(): unrecognised arm {arm!r}")
    for v in named:
        if v not in code_of:
            problems.append(f"code(): no arm for {v}")

    # impl From<i32> for ErrorCode { fn from(code: i32) -> Self { match code { CONST => Variant, ..., code => ServerError(code) } } }
    from_impl = find_block(src, r"impl From<i32> for ErrorCode\s*\{")
    kind_of = []  # ordered arms (code, variant)
    default_ok = False
    if from_impl is None:
        problems.append("impl From<i32> not found")
    else:
        body = find_block(from_impl, r"match code\s*\{") or ""
        if not body:
            # table-driven spelling: `TABLE.iter().find_map(|&(k, v)| (k == code).then_some(v)).unwrap_or(Self::ServerError(code))`
            # (or `.find(|(k, _)| *k == code).map(|(_, v)| *v).unwrap_or(..)`) over a const array of (code, variant) pairs
            fb = re.sub(r"\s+", " ", find_block(from_impl, r"fn from\(\s*code\s*:\s*i32\s*\)\s*->\s*Self\s*\{") or "")
            mt = re.match(r" ?(\w+) ?\. ?iter\(\) ?\.", fb)
            tail_ok = bool(re.search(r"\.unwrap_or(?:_else)?\( ?(?:\|\| ?)?(?:Self|ErrorCode)::ServerError\(code\) ?\) ?$", fb))
            eq_ok = bool(re.search(r"== ?code\b", fb)) and ("find_map" in fb or ".find(" in fb)
            if mt and tail_ok and eq_ok:
                tm = re.search(r"const " + re.escape(mt.group(1)) + r"\s*:\s*\[[^\]]*\]\s*=\s*\[(.*?)\]\s*;", src, flags=re.S)
                if tm:
                    for a, b in re.findall(r"\(\s*([^,()]+?)\s*,\s*(?:ErrorCode|Self)::(\w+)\s*\)", tm.group(1)):
                        v = eval_int(a, allc)
                        if v is not None and b in named:
                            kind_of.append((v, b))
                        else:
                            problems.append(f"from(): unrecognised table entry ({a}, {b})")
                    default_ok = True
                else:
                    problems.append("from(): lookup table not found")
        for arm in [re.sub(r"\b(?:ErrorCode|Self)::", "", a.strip()) for a in body.split(",") if a.strip()]:
            m = re.fullmatch(r"(-?[\w ]+?)\s*=>\s*(\w+)", arm)
            m2 = re.fullmatch(r"(\w+)\s*=>\s*ServerError\((\w+)\)", arm)
            if m2:
                default_ok = m2.group(1) == m2.group(2)
                if not default_ok:
                    problems.append(f"from(): default arm is not ServerError(code): {arm}")
            elif m and m.group(1) in consts and m.group(2) in named:
                kind_of.append((consts[m.group(1)], m.group(2)))
            elif m and m.group(2) in named and eval_int(m.group(1), allc) is not None:
                kind_of.append((eval_int(m.group(1), allc), m.group(2)))
            else:
                problems.append(f"from(): unrecognised arm {arm!r}")
        if not default_ok and not any("default arm" in p for p in problems):
            problems.append("from(): no default arm")
    if not code_passthrough and not any("ServerError arm" in p for p in problems):
        problems.append("code(): no ServerError arm")

    ok = not problems
    L = []
    L.append("/- GENERATED by /verif/tools/translate.py from types/src/error.rs — do not edit. -/")
    L.append("namespace Jrpc.Gen")
    L.append("")
    L.append(f"def errorCodesTranslatorOk : Bool := {'true' if ok else 'false'}")
    L.append("")
    L.append("inductive ErrKind where")
    for v in named:
        L.append(f"  | {v}")
    L.append("  | ServerError (c : Int)")
    L.append("  deriving DecidableEq, Repr")
    L.append("")
    L.append("/-- `ErrorCode::code` -/")
    L.append("def codeOf : ErrKind → Int")
    for v in named:
        L.append(f"  | .{v} => {lean_int(code_of.get(v, 0))}")
    L.append("  | .ServerError c => c")
    L.append("")
    L.append("/-- `impl From<i32> for ErrorCode` (first matching arm wins) -/")
    L.append("def kindOf (c : Int) : ErrKind :=")
    for code, v in kind_of:
        L.append(f"  if c = {lean_int(code)} then .{v} else")
    L.append("  .ServerError c")
    L.append("")
    L.append("/-- every variant without payload -/")
    L.append("def namedKinds : List ErrKind := [" + ", ".join("." + v for v in named) + "]")
    L.append("")
    L.append("/-- the `*_CODE` constants -/")
    L.append("def codeConstants : List (String × Int) := [")
    L.append(",\n".join(f'  ("{k}", {lean_int(v)})' for k, v in sorted(consts.items())))
    L.append("]")
    L.append("")
    L.append("def kindName : ErrKind → String")
    for v in named:
        L.append(f'  | .{v} => "{v}"')
    L.append('  | .ServerError _ => "ServerError"')
    L.append("")
    L.append("end Jrpc.Gen")
    write_if_changed(os.path.join(GEN, "ErrorCodes.lean"), "\n".join(L) + "\n")
    info["ErrorCodes"] = {
        "source": rel,
        "ok": ok,
        "problems": problems,
        "named_variants": named,
        "code_of": code_of,
        "from_arms": kind_of,
        "constants": consts,
    }


# ------------------------------------------------------------------------------------------------
def _strip_comments_keep_lines(src):
    """like strip_comments but every removed block keeps its newlines, so offsets map to source lines"""
    src = re.sub(r"/\*.*?\*/", lambda m: "\n" * m.group(0).count("\n"), src, flags=re.S)
    return re.sub(r"//[^\n]*", "", src)


def _enclosing_fn(src, pos):
    """(name, parameter text, offset of the body's opening brace) of the last `fn` that starts before pos"""
    last = None
    for m in re.finditer(r"\bfn\s+(\w+)\s*(?:<[^{;]*?>)?\s*\(", src[:pos]):
        last = m
    if last is None:
        return None, "", 0
    depth, j = 0, last.end() - 1
    while j < len(src):
        if src[j] == "(":
            depth += 1
        elif src[j] == ")":
            depth -= 1
            if depth == 0:
                break
        j += 1
    body = src.find("{", j)
    return last.group(1), src[last.end() : j], body


def _balanced_arg(src, open_paren):
    depth = 0
    for j in range(open_paren, len(src)):
        if src[j] == "(":
            depth += 1
        elif src[j] == ")":
            depth -= 1
            if depth == 0:
                return src[open_paren + 1 : j]
    return None


def _resolve_guard_arg(expr, fn_name, fn_params, fn_text_before, depth=0):
    """what a `ConnectionGuard::new(<expr>)` argument denotes:
    ("cfg", field) | ("param", fn, name) | ("lit", n) | ("unknown", text)"""
    e = expr.strip()
    while True:
        e2 = re.sub(r"\s+as\s+(usize|u32|u64)$", "", e).strip()
        if e2.startswith("(") and e2.endswith(")") and _balanced_arg(e2, 0) == e2[1:-1]:
            e2 = e2[1:-1].strip()
        if e2 == e:
            break
        e = e2
    m = re.fullmatch(r"(?:\w+\.)*server_cfg\.(\w+)", e)
    if m:
        return ("cfg", m.group(1))
    if re.fullmatch(r"\d+(_?\d+)*(usize|u32)?", e):
        return ("lit", int(re.sub(r"[^0-9]", "", re.sub(r"(usize|u32)$", "", e))))
    if re.fullmatch(r"[a-z_]\w*", e) and depth < 4:
        lets = list(re.finditer(r"\blet\s+(?:mut\s+)?" + re.escape(e) + r"\s*(?::[^=;]+)?=\s*([^;]+);", fn_text_before))
        if lets:
            return _resolve_guard_arg(lets[-1].group(1), fn_name, fn_params, fn_text_before[: lets[-1].start()], depth + 1)
        if re.search(r"(?:^|[,(\s])" + re.escape(e) + r"\s*:", fn_params):
            return ("param", fn_name, e)
    return ("unknown", re.sub(r"\s+", " ", e))


def _matching_brace(src, open_at):
    depth = 0
    for j in range(open_at, len(src)):
        if src[j] == "{":
            depth += 1
        elif src[j] == "}":
            depth -= 1
            if depth == 0:
                return j
    return None


def _split_top_level(text):
    """split a struct-literal body at commas that are not nested in () [] {} or <>-free closures"""
    parts, depth, cur = [], 0, ""
    for ch in text:
        if ch in "([{":
            depth += 1
        elif ch in ")]}":
            depth -= 1
        if ch == "," and depth == 0:
            parts.append(cur)
            cur = ""
        else:
            cur += ch
    if cur.strip():
        parts.append(cur)
    return [p.strip() for p in parts if p.strip()]


def _tower_builder_rebuilds(src, problems):
    """Every struct-literal reconstruction (`TowerServiceBuilder { .. }` / `Self { .. }`, fields in any
    order, `..self` allowed) inside an `impl .. TowerServiceBuilder<..> { .. }` block, and every
    assignment `self.conn_guard = ..` / `self.conn_id = ..` there.
    Returns (rebuilds, assigns): rebuilds = [(line, fn, guard_src, conn_id_src)] with src =
    ("carried",) | ("fresh", expr) | ("missing",); assigns = [(line, fn, field)]."""
    rebuilds, assigns = [], []
    found_impl = False
    for im in re.finditer(r"\bimpl\b[^{;]*?\bTowerServiceBuilder\b[^{;]*\{", src):
        if re.search(r"\bfor\s+TowerServiceBuilder\b", im.group(0)):
            continue  # trait impls (Debug, Clone, ..) do not build builders from builders
        found_impl = True
        open_at = im.end() - 1
        close_at = _matching_brace(src, open_at)
        if close_at is None:
            problems.append("impl TowerServiceBuilder: unbalanced braces")
            continue
        for lm in re.finditer(r"\b(TowerServiceBuilder|Self)\s*\{", src[open_at:close_at]):
            at = open_at + lm.start()
            before = src[max(0, at - 40) : at].rstrip()
            if before.endswith("->") or before.endswith("impl") or before.endswith("for") or before.endswith("let") or before.endswith("struct"):
                continue  # a return type / pattern, not a struct expression
            b_open = open_at + lm.end() - 1
            b_close = _matching_brace(src, b_open)
            if b_close is None:
                continue
            body = src[b_open + 1 : b_close]
            fn_name, _params, fn_body_at = _enclosing_fn(src, at)
            fn_text_before = src[fn_body_at:at]
            fields, has_update = {}, None
            for part in _split_top_level(body):
                if part.startswith(".."):
                    has_update = re.sub(r"\s+", "", part[2:])
                    continue
                fm = re.match(r"(\w+)\s*(?::\s*(.*))?$", part, flags=re.S)
                if not fm:
                    problems.append(f"impl TowerServiceBuilder::{fn_name}: unrecognised field {part[:40]!r}")
                    continue
                fields[fm.group(1)] = re.sub(r"\s+", " ", fm.group(2)).strip() if fm.group(2) else None

            def classify(field):
                if field not in fields:
                    if has_update in ("self", "self.clone()"):
                        return ("carried",)
                    return ("missing",)
                e = fields[field]
                if e is None or e == field:  # shorthand: a local of that name
                    pat_destructure = r"\blet\s+(?:Self|TowerServiceBuilder)\s*\{[^}]*\b" + field + r"\b[^}]*\}\s*=\s*self\b"
                    pat_let = r"\blet\s+(?:mut\s+)?" + field + r"\s*(?::[^=;]+)?=\s*self\s*\.\s*" + field + r"\s*(?:\.clone\(\))?\s*;"
                    if re.search(pat_destructure, fn_text_before, flags=re.S) or re.search(pat_let, fn_text_before):
                        return ("carried",)
                    return ("fresh", f"local `{field}` of unknown origin")
                if re.fullmatch(r"self\s*\.\s*" + field + r"(\s*\.clone\(\))?", e) or re.fullmatch(r"Arc::clone\(\s*&\s*self\s*\.\s*" + field + r"\s*\)", e):
                    return ("carried",)
                return ("fresh", e)

            line = src.count("\n", 0, at) + 1
            rebuilds.append((line, fn_name or "?", classify("conn_guard"), classify("conn_id")))
        for am in re.finditer(r"\bself\s*\.\s*(conn_guard|conn_id)\s*=[^=]", src[open_at:close_at]):
            at = open_at + am.start()
            fn_name, _, _ = _enclosing_fn(src, at)
            assigns.append((src.count("\n", 0, at) + 1, fn_name or "?", am.group(1)))
    if not found_impl:
        problems.append("no `impl .. TowerServiceBuilder<..>` block found in server/src/server.rs")
    return rebuilds, assigns


def _stmt_start(src, pos):
    return max(src.rfind(c, 0, pos) for c in ";{}") + 1


def _block_after(src, pos):
    """(text, end) of the brace block that starts at the first `{` at/after pos (only whitespace may precede it)"""
    m = re.match(r"\s*\{", src[pos:])
    if not m:
        return None, pos
    o = pos + m.end() - 1
    c = _matching_brace(src, o)
    if c is None:
        return None, pos
    return src[o + 1 : c], c + 1


def _refusal_branch(src, call_start, call_end):
    """text of the branch taken when `<guard>.try_acquire()` yields no permit, for the spellings
    let-else, match (None / _ arm), if-let-else, `if x.is_none()` after a plain `let x = ..`"""
    head = src[_stmt_start(src, call_start) : call_start]
    # let Some(p) = CALL else { B };
    if re.search(r"\blet\s+Some\s*\(", head):
        m = re.match(r"\s*else\b", src[call_end:])
        if m:
            b, _ = _block_after(src, call_end + m.end())
            if b is not None:
                return b
    # [let p =] match CALL { Some(p) => .., None => B }
    if re.search(r"\bmatch\s*$", head):
        arms, _ = _block_after(src, call_end)
        if arms is not None:
            for arm in _split_top_level(arms):
                am = re.match(r"(?:None|_)\s*=>\s*(.*)$", arm, flags=re.S)
                if am:
                    return am.group(1)
            # arms whose bodies are blocks need no comma: look for the arm head directly
            am = re.search(r"(?:\bNone|\b_)\s*=>\s*", arms)
            if am:
                b, _ = _block_after(arms, am.end())
                return b if b is not None else arms[am.end() :]
    # if let Some(p) = CALL { A } else { B }
    if re.search(r"\bif\s+let\s+Some\s*\([^)]*\)\s*=\s*$", head):
        a, end = _block_after(src, call_end)
        if a is not None:
            m = re.match(r"\s*else\b", src[end:])
            if m:
                b, _ = _block_after(src, end + m.end())
                if b is not None:
                    return b
    # let x = CALL; … if x.is_none() { B }   /   let Some(p) = x else { B }
    lm = re.search(r"\blet\s+(?:mut\s+)?(\w+)\s*(?::[^=;]+)?=\s*$", head)
    if lm and re.match(r"\s*;", src[call_end:]):
        v = re.escape(lm.group(1))
        rest = src[call_end : call_end + 1500]
        m = re.search(r"\bif\s+" + v + r"\s*\.\s*is_none\s*\(\s*\)", rest)
        if m:
            b, _ = _block_after(rest, m.end())
            if b is not None:
                return b
        m = re.search(r"\blet\s+Some\s*\([^)]*\)\s*=\s*" + v + r"\s*else\b", rest)
        if m:
            b, _ = _block_after(rest, m.end())
            if b is not None:
                return b
    return None


_STATUS_NUM = {
    "OK": 200, "BAD_REQUEST": 400, "UNAUTHORIZED": 401, "FORBIDDEN": 403, "NOT_FOUND": 404, "METHOD_NOT_ALLOWED": 405,
    "REQUEST_TIMEOUT": 408, "PAYLOAD_TOO_LARGE": 413, "UNSUPPORTED_MEDIA_TYPE": 415, "TOO_MANY_REQUESTS": 429,
    "INTERNAL_SERVER_ERROR": 500, "NOT_IMPLEMENTED": 501, "BAD_GATEWAY": 502, "SERVICE_UNAVAILABLE": 503,
}


def _alias_resolve(expr, text_before, depth=0):
    """follow `let v = <expr>;` aliases and drop integer casts / parentheses"""
    e = re.sub(r"\s+", " ", expr).strip()
    while True:
        e2 = re.sub(r"\s+as\s+(usize|u32|u64)$", "", e).strip()
        if e2.startswith("(") and e2.endswith(")") and _balanced_arg(e2, 0) == e2[1:-1]:
            e2 = e2[1:-1].strip()
        if e2 == e:
            break
        e = e2
    if re.fullmatch(r"[a-z_]\w*", e) and depth < 4:
        lets = list(re.finditer(r"\blet\s+(?:mut\s+)?" + re.escape(e) + r"\s*(?::[^=;]+)?=\s*([^;]+);", text_before))
        if lets:
            return _alias_resolve(lets[-1].group(1), text_before[: lets[-1].start()], depth + 1)
    return e


def _impl_blocks(src, type_name):
    """(start, end) of the bodies of the inherent `impl .. <type_name><..> { .. }` blocks"""
    out = []
    for im in re.finditer(r"\bimpl\b[^{;]*?\b" + type_name + r"\b[^{;]*\{", src):
        if re.search(r"\bfor\s+" + type_name + r"\b", im.group(0)):
            continue
        o = im.end() - 1
        c = _matching_brace(src, o)
        if c is not None:
            out.append((o, c))
    return out


def _fn_bodies(text):
    """[(name, params, body)] of the fns directly or indirectly inside text"""
    out = []
    for m in re.finditer(r"\bfn\s+(\w+)\s*(?:<[^{;(]*>)?\s*\(", text):
        params = _balanced_arg(text, m.end() - 1)
        if params is None:
            continue
        after = m.end() + len(params) + 1
        bm = re.match(r"[^{;]*\{", text[after:])
        if not bm:
            continue
        o = after + bm.end() - 1
        c = _matching_brace(text, o)
        if c is not None:
            out.append((m.group(1), params, text[o + 1 : c]))
    return out


def gen_conn_wiring(info):
    """C11: which configuration value sizes the connection guard at every construction site, the
    public knob that feeds it, the single acquisition point and the refusal status, and that the
    tower-service builder hands its guard on.  The generated table carries NO line numbers (sites
    are labelled by enclosing fn + ordinal) and no parameter / local names, so that it only changes
    when the wiring changes; lines are reported in translate_info.json only."""
    rel = "server/src/server.rs"
    raw = read(rel)
    src = _strip_comments_keep_lines(raw)
    problems = []

    def lean_str(s):
        return '"' + s.replace("\\", "\\\\").replace('"', '\\"') + '"'

    def line_of(pos):
        return src.count("\n", 0, pos) + 1

    def with_ordinals(items):
        """items = [(fn, ..)] in source order -> [(fn, ordinal within fn, ..)]"""
        seen, out = {}, []
        for it in items:
            seen[it[0]] = seen.get(it[0], 0) + 1
            out.append((it[0], seen[it[0]]) + tuple(it[1:]))
        return out

    sites_raw, site_lines = [], []
    for m in re.finditer(r"ConnectionGuard::new\s*\(", src):
        arg = _balanced_arg(src, m.end() - 1)
        fn_name, fn_params, body_at = _enclosing_fn(src, m.start())
        if arg is None or fn_name is None:
            problems.append(f"ConnectionGuard::new at line {line_of(m.start())}: cannot delimit argument / enclosing fn")
            continue
        res = _resolve_guard_arg(arg, fn_name, fn_params, src[body_at : m.start()])
        if res[0] == "unknown":
            problems.append(f"ConnectionGuard::new in {fn_name}: unrecognised argument {res[1]!r}")
        sites_raw.append((fn_name, res))
        site_lines.append(line_of(m.start()))
    if not sites_raw:
        problems.append("no ConnectionGuard::new(..) site found in server/src/server.rs")
    sites = with_ordinals(sites_raw)

    rebuilds_l, assigns_l = _tower_builder_rebuilds(src, problems)
    rebuilds = with_ordinals([(fn, g, ci) for _ln, fn, g, ci in rebuilds_l])
    assigns = [(fn, fld) for _ln, fn, fld in assigns_l]

    # ServerConfigBuilder: u32 setters `fn f(mut self, p: u32) -> Self { .. self.<field> = p .. }` and `build`
    setter_flows, build_flows = [], []
    scb = _impl_blocks(src, "ServerConfigBuilder")
    if not scb:
        problems.append("no `impl ServerConfigBuilder` block found")
    found_build = False
    for o, c in scb:
        for name, params, body in _fn_bodies(src[o + 1 : c]):
            pm = re.fullmatch(r"\s*mut\s+self\s*,\s*(\w+)\s*:\s*u32\s*,?\s*", params, flags=re.S)
            if pm:
                for am in re.finditer(r"\bself\s*\.\s*(\w+)\s*=\s*([^;=][^;]*);", body):
                    if _alias_resolve(am.group(2), body[: am.start()]) == pm.group(1):
                        setter_flows.append((name, am.group(1)))
            if name == "build" and re.fullmatch(r"\s*(mut\s+)?self\s*", params):
                lm = re.search(r"\bServerConfig\s*\{", body)
                if not lm:
                    continue
                found_build = True
                lc = _matching_brace(body, lm.end() - 1)
                lit = body[lm.end() : lc] if lc else ""
                before = body[: lm.start()]
                for part in _split_top_level(lit):
                    fm = re.match(r"(\w+)\s*(?::\s*(.*))?$", part, flags=re.S)
                    if not fm:
                        continue
                    f, e = fm.group(1), fm.group(2)
                    if e is None:
                        if re.search(r"\blet\s+(?:Self|ServerConfigBuilder)\s*\{[^}]*\b" + f + r"\b[^}]*\}\s*=\s*self\b", before, flags=re.S):
                            build_flows.append((f, f))
                        else:
                            r = _alias_resolve(f, before)
                            sm = re.fullmatch(r"self\s*\.\s*(\w+)(\s*\.clone\(\))?", r)
                            if sm:
                                build_flows.append((f, sm.group(1)))
                    else:
                        sm = re.fullmatch(r"self\s*\.\s*(\w+)(\s*\.clone\(\))?", _alias_resolve(e, before))
                        if sm:
                            build_flows.append((f, sm.group(1)))
    if scb and not found_build:
        problems.append("ServerConfigBuilder::build (-> ServerConfig { .. }) not found")
    # only the connection limit matters here (other fields come and go without touching C11)
    setter_flows = [f for f in setter_flows if "max_connections" in f]
    build_flows = [f for f in build_flows if "max_connections" in f]

    # response constructors of transport/http.rs and their status
    rel_http = "server/src/transport/http.rs"
    http_src = strip_comments(read(rel_http))
    ctor_status = {}
    for name, params, body in _fn_bodies(http_src):
        if params.strip():
            continue
        sm = re.search(r"StatusCode::([A-Z_]+)", body)
        nm_ = re.search(r"StatusCode::from_u16\s*\(\s*(\d+)\s*\)", body)
        if sm and sm.group(1) in _STATUS_NUM:
            ctor_status[name] = _STATUS_NUM[sm.group(1)]
        elif nm_:
            ctor_status[name] = int(nm_.group(1))

    # acquisition points and what is answered when no permit is available
    acquires_raw, acquire_lines = [], []
    for m in re.finditer(r"\b\w+(?:\s*\.\s*\w+)*\s*\.\s*try_acquire\s*\(\s*\)", src):
        fn_name, _, _ = _enclosing_fn(src, m.start())
        branch = _refusal_branch(src, m.start(), m.end())
        refusal = "unknown"
        if branch is not None and re.search(r"\breturn\b", branch):
            names = sorted({n for n in ctor_status if re.search(r"\b" + re.escape(n) + r"\s*\(\s*\)", branch)})
            if len(names) == 1:
                refusal = names[0]
        if refusal == "unknown":
            problems.append(f"try_acquire in {fn_name}: refusal branch not recognised")
        acquires_raw.append((fn_name or "?", refusal))
        acquire_lines.append(line_of(m.start()))
    if not acquires_raw:
        problems.append("no try_acquire() call found in server/src/server.rs")
    acquires = with_ordinals(acquires_raw)
    status_of = {a[2]: ctor_status[a[2]] for a in acquires if a[2] in ctor_status}

    # future.rs: the semaphore is sized by the constructor's parameter, `max` records it, permits are
    # taken with `try_acquire_owned` on (a clone of) that semaphore and counted with `available_permits`
    rel_fut = "server/src/future.rs"
    fut = strip_comments(read(rel_fut))
    gimpl = find_block(fut, r"impl ConnectionGuard\s*\{") or ""
    fns = {name: (params, body) for name, params, body in _fn_bodies(gimpl)}
    guard_new = ("?", "?")
    if "new" in fns:
        params, body = fns["new"]
        pm = re.fullmatch(r"\s*(\w+)\s*:\s*usize\s*,?\s*", params)
        sems = list(re.finditer(r"Semaphore::new\s*\(", body))
        lm = re.search(r"\b(?:Self|ConnectionGuard)\s*\{", body)
        if pm and len(sems) == 1 and lm:
            p = pm.group(1)
            sem_arg = _alias_resolve(_balanced_arg(body, sems[0].end() - 1) or "?", body[: sems[0].start()])
            lc = _matching_brace(body, lm.end() - 1)
            fields = {}
            for part in _split_top_level(body[lm.end() : lc] if lc else ""):
                fm = re.match(r"(\w+)\s*(?::\s*(.*))?$", part, flags=re.S)
                if fm:
                    fields[fm.group(1)] = fm.group(2) if fm.group(2) is not None else fm.group(1)
            max_e = _alias_resolve(fields.get("max", "?"), body[: lm.start()])
            inner_e = _alias_resolve(fields.get("inner", "?"), body[: lm.start()])
            inner_parts = [inner_e] + [_alias_resolve(v, body[: lm.start()]) for v in re.findall(r"\b[a-z_]\w*\b", inner_e)]
            if not any("Semaphore::new" in x for x in inner_parts):
                problems.append(f"{rel_fut}: ConnectionGuard::new: `inner` is not built from the new semaphore")
            guard_new = ("param" if sem_arg == p else sem_arg, "param" if max_e == p else max_e)
        else:
            problems.append(f"{rel_fut}: ConnectionGuard::new body not recognised")
    else:
        problems.append(f"{rel_fut}: ConnectionGuard::new not found")
    inner_clone = r"(?:self\s*\.\s*inner\s*\.\s*clone\s*\(\s*\)|Arc::clone\s*\(\s*&\s*self\s*\.\s*inner\s*\))"
    tb = fns.get("try_acquire", ("", ""))[1]
    if not (len(re.findall(r"\btry_acquire_owned\s*\(", tb)) == 1 and re.search(inner_clone + r"\s*\.\s*try_acquire_owned\s*\(\s*\)", tb)):
        problems.append(f"{rel_fut}: try_acquire is not one `try_acquire_owned()` on a clone of `self.inner`")
    elif re.search(r"\b(acquire_owned|acquire_many|acquire|add_permits|forget|close)\s*\(", re.sub(r"try_acquire_owned", "", tb)):
        problems.append(f"{rel_fut}: try_acquire does more with the semaphore than `try_acquire_owned()`")
    elif not (re.search(r"NoPermits\s*\)?\s*=>\s*None", tb) or re.search(r"\.\s*ok\s*\(\s*\)", tb)):
        problems.append(f"{rel_fut}: try_acquire: `NoPermits` is not mapped to `None`")
    ab = fns.get("available_connections", ("", ""))[1]
    if not re.fullmatch(r"\s*(return\s+)?self\s*\.\s*inner\s*\.\s*available_permits\s*\(\s*\)\s*;?\s*", ab):
        problems.append(f"{rel_fut}: available_connections is not `self.inner.available_permits()`")

    ok = not problems

    def src_lean(r):
        if r[0] == "cfg":
            return f".cfgField {lean_str(r[1])}"
        if r[0] == "param":
            return f".setterParam {lean_str(r[1])}"
        if r[0] == "lit":
            return f".literal {r[1]}"
        return f".unknown {lean_str(r[1])}"

    def carry_lean(c):
        if c[0] == "carried":
            return ".carried"
        if c[0] == "missing":
            return ".missing"
        return f".fresh {lean_str(c[1])}"

    L = []
    L.append("/- GENERATED by /verif/tools/translate.py from server/src/server.rs, server/src/future.rs,")
    L.append("   server/src/transport/http.rs — do not edit.  Sites are labelled by enclosing fn + ordinal. -/")
    L.append("namespace Jrpc.Gen")
    L.append("")
    L.append(f"def connWiringTranslatorOk : Bool := {'true' if ok else 'false'}")
    L.append("")
    L.append("/-- what the argument of a `ConnectionGuard::new(..)` call denotes -/")
    L.append("inductive GuardSrc where")
    L.append("  | cfgField (field : String)  -- `…server_cfg.<field> [as usize]` (possibly via a local `let`)")
    L.append("  | setterParam (fn : String)  -- the parameter of the enclosing builder method `fn`")
    L.append("  | literal (n : Nat)")
    L.append("  | unknown (expr : String)")
    L.append("  deriving DecidableEq, Repr")
    L.append("")
    L.append("structure GuardSite where")
    L.append("  encl : String")
    L.append("  ord : Nat")
    L.append("  src : GuardSrc")
    L.append("  deriving DecidableEq, Repr")
    L.append("")
    L.append("/-- every `ConnectionGuard::new(..)` in server/src/server.rs -/")
    L.append("def connGuardSites : List GuardSite := [")
    L.append(",\n".join(f"  {{ encl := {lean_str(fn)}, ord := {o}, src := {src_lean(r)} }}" for fn, o, r in sites))
    L.append("]")
    L.append("")
    L.append("/-- where a field of a rebuilt `TowerServiceBuilder` comes from -/")
    L.append("inductive Carry where")
    L.append("  | carried                -- `self.<field>` (also via `..self`, a destructured `self`, `.clone()`)")
    L.append("  | fresh (expr : String)  -- any other expression, e.g. a new `ConnectionGuard::new(..)`")
    L.append("  | missing")
    L.append("  deriving DecidableEq, Repr")
    L.append("")
    L.append("structure Rebuild where")
    L.append("  encl : String")
    L.append("  ord : Nat")
    L.append("  guard : Carry")
    L.append("  connId : Carry")
    L.append("  deriving DecidableEq, Repr")
    L.append("")
    L.append("/-- every struct-literal reconstruction of the builder inside `impl TowerServiceBuilder` (the methods")
    L.append("that change a type parameter cannot mutate `self` and rebuild it field by field) -/")
    L.append("def towerBuilderRebuilds : List Rebuild := [")
    L.append(",\n".join(f"  {{ encl := {lean_str(fn)}, ord := {o}, guard := {carry_lean(g)}, connId := {carry_lean(ci)} }}" for fn, o, g, ci in rebuilds))
    L.append("]")
    L.append("")
    L.append("/-- every assignment `self.conn_guard = ..` / `self.conn_id = ..` inside `impl TowerServiceBuilder`: (fn, field) -/")
    L.append("def towerBuilderAssigns : List (String × String) := [")
    L.append(",\n".join(f"  ({lean_str(fn)}, {lean_str(fld)})" for fn, fld in assigns))
    L.append("]")
    L.append("")
    L.append("/-- `ServerConfigBuilder` setters `fn f(mut self, p: u32) -> Self` that store `p` in `self.<field>`: (fn, field) -/")
    L.append("def cfgSetterFlows : List (String × String) := [")
    L.append(",\n".join(f"  ({lean_str(a)}, {lean_str(b)})" for a, b in setter_flows))
    L.append("]")
    L.append("")
    L.append("/-- `ServerConfigBuilder::build`: (ServerConfig field, builder field it is copied from) -/")
    L.append("def cfgBuildFlows : List (String × String) := [")
    L.append(",\n".join(f"  ({lean_str(a)}, {lean_str(b)})" for a, b in build_flows))
    L.append("]")
    L.append("")
    L.append("/-- every `try_acquire()` call in server.rs: (enclosing fn, ordinal, response constructor returned when no permit) -/")
    L.append("def tryAcquireSites : List (String × Nat × String) := [")
    L.append(",\n".join(f"  ({lean_str(fn)}, {o}, {lean_str(rf)})" for fn, o, rf in acquires))
    L.append("]")
    L.append("")
    L.append("/-- HTTP status of the refusal constructors (transport/http.rs) -/")
    L.append("def refusalStatus : List (String × Nat) := [")
    L.append(",\n".join(f"  ({lean_str(k)}, {v})" for k, v in sorted(status_of.items())))
    L.append("]")
    L.append("")
    L.append("/-- `ConnectionGuard::new(p)`: (size of the semaphore, value of `max`); \"param\" = exactly `p` -/")
    L.append(f"def guardNewShape : String × String := ({lean_str(guard_new[0])}, {lean_str(guard_new[1])})")
    L.append("")
    L.append("end Jrpc.Gen")
    write_if_changed(os.path.join(GEN, "ConnWiring.lean"), "\n".join(L) + "\n")
    info["ConnWiring"] = {
        "source": f"{rel} (ConnectionGuard::new at lines {site_lines}, try_acquire at lines {acquire_lines}); {rel_fut} (ConnectionGuard impl); {rel_http} (refusal status)",
        "ok": ok,
        "problems": problems,
        "sites": [[fn, o, list(r)] for fn, o, r in sites],
        "acquires": [list(a) for a in acquires],
        "refusal_status": status_of,
        "guard_new": list(guard_new),
        "tower_builder_rebuilds": [[fn, o, list(g), list(ci)] for fn, o, g, ci in rebuilds],
        "tower_builder_assigns": [list(a) for a in assigns],
    }


# ------------------------------------------------------------------------------------------------
def gen_default_ports(info):
    """C14: `fn default_port(scheme: Option<&str>) -> Option<u16>` in authority.rs -> scheme/port table."""
    rel = "server/src/middleware/http/authority.rs"
    src = strip_comments(read(rel))
    problems = []
    table = []  # (scheme string, port) in source order, first match wins
    default_none = False
    m = re.search(r"fn default_port\(\s*(\w+)\s*:\s*Option<&str>\s*\)\s*->\s*Option<u16>\s*\{", src)
    body = None
    if not m:
        problems.append("fn default_port(scheme: Option<&str>) -> Option<u16> not found")
    else:
        fn_body = find_block(src, r"fn default_port\(\s*\w+\s*:\s*Option<&str>\s*\)\s*->\s*Option<u16>\s*\{")
        # the function body must be exactly one `match <param> { ... }`
        mm = re.fullmatch(r"\s*match\s+" + re.escape(m.group(1)) + r"\s*\{(.*)\}\s*", fn_body or "", flags=re.S)
        if not mm:
            # table-driven spelling: `let s = scheme?; TABLE.iter().find(|(k, _)| *k == s).map(|&(_, p)| p)`
            # (or find_map) over `const TABLE: [(&str, u16); N] = [("http", 80), ..]` — first match wins, else None
            fb = re.sub(r"\s+", " ", fn_body or "").strip()
            mt = re.fullmatch(r"let (\w+) = " + re.escape(m.group(1)) + r"\?; (\w+) ?\. ?iter\(\) ?\. ?(?:find\(\|\(?&?\(?(\w+), _\)\)?\| ?\*?\*?\3 == \*?\1\) ?\. ?map\(\|&?\(_, (\w+)\)\| ?\*?\4\)|find_map\(\|&?\((\w+), (\w+)\)\| ?\(\*?\5 == \*?\1\)\.then_some\(\*?\6\)\))", fb)
            tm = mt and re.search(r"const " + re.escape(mt.group(2)) + r"\s*:\s*\[[^\]]*\]\s*=\s*\[(.*?)\]\s*;", src, flags=re.S)
            if mt and tm:
                for sname, port in re.findall(r'\(\s*"([^"\\]*)"\s*,\s*(\d+)\s*\)', tm.group(1)):
                    if int(port) > 65535:
                        problems.append(f"port out of u16 range in table entry {sname!r}")
                    table.append((sname, int(port)))
                if not table:
                    problems.append("default_port: empty lookup table")
                default_none = True
            else:
                problems.append("default_port body is not a single `match scheme { .. }`")
        else:
            body = mm.group(1)
    if body is not None:
        arms = [a.strip() for a in body.split(",") if a.strip()]
        for k, arm in enumerate(arms):
            ma = re.fullmatch(r'((?:Some\("[^"\\]*"\)\s*\|\s*)*Some\("[^"\\]*"\))\s*=>\s*Some\((\d+)\)', arm)
            md = re.fullmatch(r"_\s*=>\s*None", arm)
            if md:
                if k != len(arms) - 1:
                    problems.append("default arm `_ => None` is not the last arm")
                default_none = True
            elif ma:
                port = int(ma.group(2))
                if port > 65535:
                    problems.append(f"port out of u16 range in arm {arm!r}")
                for s in re.findall(r'Some\("([^"\\]*)"\)', ma.group(1)):
                    table.append((s, port))
            else:
                problems.append(f"default_port: unrecognised arm {arm!r}")
        if not default_none:
            problems.append("default_port: no `_ => None` arm")
    # the call site must fold exactly `default_port(uri.scheme_str())` against the parsed port
    site_match = re.search(r"match\s+default_port\(\s*uri\.scheme_str\(\)\s*\)\s*\{\s*Some\((\w+)\)\s+if\s+\1\s*==\s*port_u16\s*=>\s*Port::Default\s*,\s*_\s*=>\s*(?:port_u16\.into\(\)|Port::Fixed\(port_u16\))\s*,?\s*\}", src)
    site_if = re.search(r"if\s+default_port\(\s*uri\.scheme_str\(\)\s*\)\s*==\s*Some\(port_u16\)\s*\{\s*Port::Default\s*\}\s*else\s*\{\s*(?:port_u16\.into\(\)|Port::Fixed\(port_u16\))\s*\}", src)
    if not (site_match or site_if):
        problems.append("call site `match default_port(uri.scheme_str()) { Some(p) if p == port_u16 => Port::Default, _ => port_u16.into() }` not found")
    ok = not problems
    L = []
    L.append("/- GENERATED by /verif/tools/translate.py from server/src/middleware/http/authority.rs — do not edit. -/")
    L.append("namespace Jrpc.Gen")
    L.append("")
    L.append(f"def defaultPortsTranslatorOk : Bool := {'true' if ok else 'false'}")
    L.append("")
    L.append("/-- arms of `fn default_port` in source order: scheme (Unicode code points) ↦ port; anything else ↦ `None` -/")
    L.append("def defaultPortTable : List (List Nat × Nat) := [")
    L.append(",\n".join(f"  ([{', '.join(str(ord(ch)) for ch in s)}], {p})  /- {s} -/" for s, p in table))
    L.append("]")
    L.append("")
    L.append("/-- the same table with readable scheme names -/")
    L.append("def defaultPortNames : List (String × Nat) := [" + ", ".join(f'("{s}", {p})' for s, p in table) + "]")
    L.append("")
    L.append("def lookupPort (s : List Nat) : List (List Nat × Nat) → Option Nat")
    L.append("  | [] => none")
    L.append("  | e :: r => if e.1 == s then some e.2 else lookupPort s r")
    L.append("")
    L.append("/-- `fn default_port(scheme: Option<&str>) -> Option<u16>` (first matching arm wins, `_ => None`) -/")
    L.append("def defaultPort : Option (List Nat) → Option Nat")
    L.append("  | none => none")
    L.append("  | some s => lookupPort s defaultPortTable")
    L.append("")
    L.append("end Jrpc.Gen")
    write_if_changed(os.path.join(GEN, "DefaultPorts.lean"), "\n".join(L) + "\n")
    info["DefaultPorts"] = {"source": rel, "ok": ok, "problems": problems, "table": table}


# ------------------------------------------------------------------------------------------------
def gen_error_consts(info):
    """*_CODE / *_MSG constants, ErrorCode::message arms and the reject_* helpers of types/src/error.rs
    as named Lean definitions (Gen/ErrorConsts.lean) — the server-side models refer to them by name."""
    rel = "types/src/error.rs"
    src = strip_comments(read(rel))
    problems = []
    codes = {k: v for k, v in int_consts(src, ty="i32").items() if k.endswith("_CODE")}
    msgs = {m.group(1): m.group(2) for m in re.finditer(r'pub const (\w+_MSG): &str = "((?:[^"\\]|\\.)*)";', src)}
    # ErrorCode::message arms
    msg_fn = find_block(src, r"pub const fn message\(&self\) -> &'static str\s*\{")
    msg_of = {}
    if msg_fn is None:
        problems.append("fn message not found")
    else:
        body = find_block(msg_fn, r"match \*?self\s*\{") or ""
        for arm in [re.sub(r"\b(?:ErrorCode|Self)::", "", a.strip()) for a in body.split(",") if a.strip()]:
            m = re.fullmatch(r"(\w+)(?:\(_\))?\s*=>\s*(\w+)", arm)
            if m and m.group(2) in msgs:
                msg_of[m.group(1)] = m.group(2)
            else:
                problems.append(f"message(): unrecognised arm {arm!r}")
    # reject_* helpers: fn reject_x(limit: T) -> ErrorObjectOwned { ErrorObjectOwned::owned(CODE, MSG, Some(format!("Exceeded max limit of {limit}"))) }
    rejects = {}
    owned_re = r"ErrorObjectOwned::owned\(\s*([\w:]+),\s*([\w:]+),\s*Some\(format!\(\"((?:[^\"\\]|\\.)*)\"(?:\s*,\s*(\w+))?\)\),?\s*\)"

    def split_args(a):
        out, d, cur = [], 0, ""
        for ch in a:
            if ch in "([{":
                d += 1
            elif ch in ")]}":
                d -= 1
            if ch == "," and d == 0:
                out.append(cur.strip())
                cur = ""
            else:
                cur += ch
        if cur.strip():
            out.append(cur.strip())
        return out

    def reject_shape(body, limit_name, depth=0):
        """(code const, msg const, data prefix) of a body that is `ErrorObjectOwned::owned(CODE, MSG,
        Some(format!("<prefix>{limit}")))` — directly or through one private helper function"""
        b = re.sub(r"\s+", " ", body).strip().rstrip(";").strip()
        # inline leading `let x = <expr>;` bindings (textual; the expressions here are pure)
        for _ in range(8):
            ml = re.match(r"let (\w+)(?:\s*:\s*[^=;]+)? = ([^;]+); (.*)$", b)
            if not ml:
                break
            b = re.sub(r"\b" + re.escape(ml.group(1)) + r"\b", ml.group(2).strip(), ml.group(3))
        b = re.sub(r"^return ", "", b).rstrip(";").strip()
        m = re.fullmatch(owned_re, b)
        if m:
            code, msg, fmt, arg = m.groups()
            if arg is None and fmt.endswith("{" + limit_name + "}") and fmt.count("{") == 1:
                return code, msg, fmt[: -len("{" + limit_name + "}")]
            if arg == limit_name and fmt.endswith("{}") and fmt.count("{") == 1:
                return code, msg, fmt[:-2]
            return None
        mc = re.fullmatch(r"(\w+)\((.*)\)", b)
        if mc and depth < 2:
            hp, hb = None, None
            mh = re.search(r"\bfn " + re.escape(mc.group(1)) + r"\s*(?:<[^>]*>)?\(([^)]*)\)\s*->\s*ErrorObjectOwned\s*\{", src)
            if mh:
                hb = find_block(src, r"\bfn " + re.escape(mc.group(1)) + r"\s*(?:<[^>]*>)?\([^)]*\)\s*->\s*ErrorObjectOwned\s*\{")
                hp = [x.split(":")[0].strip() for x in split_args(mh.group(1))]
            args = split_args(mc.group(2))
            if hb is not None and hp is not None and len(hp) == len(args):
                # substitute parameters by arguments (identifiers only); the limit keeps a fresh name
                text = hb
                lim_param = None
                for pn, av in zip(hp, args):
                    if av == limit_name:
                        lim_param = pn
                    else:
                        text = re.sub(r"\b" + re.escape(pn) + r"\b", av, text)
                return reject_shape(text, lim_param or limit_name, depth + 1)
        return None

    for m in re.finditer(r"pub fn (reject_\w+)\(\s*(\w+)\s*:\s*\w+\s*\)\s*->\s*ErrorObjectOwned\s*\{", src):
        name, lim = m.group(1), m.group(2)
        body = find_block(src, r"pub fn " + re.escape(name) + r"\(")
        sh = reject_shape(body or "", lim)
        if sh:
            code, msg, prefix = sh
            code = code.split("::")[-1]
            msg = msg.split("::")[-1]
            if code in codes and msg in msgs:
                rejects[name] = (code, msg, prefix)
                continue
        problems.append(f"{name}: unrecognised shape")
        # best effort so that the model keeps compiling (the `*_translator_ok` obligation stays broken and
        # the correspondence validates whatever is guessed here): first code / message constant and first
        # string literal reachable from the body
        reach = body or ""
        for callee in re.findall(r"\b(\w+)\(", reach):
            cb = find_block(src, r"\bfn " + re.escape(callee) + r"\b[^{]*\{")
            if cb and callee != name:
                reach += " " + cb
        gc = next((c for c in re.findall(r"\b(\w+_CODE)\b", reach) if c in codes), None)
        gm = next((c for c in re.findall(r"\b(\w+_MSG)\b", reach) if c in msgs), None)
        gl = re.search(r'"((?:[^"\\]|\\.)*?)\{', reach)
        if gc and gm:
            rejects[name] = (gc, gm, gl.group(1) if gl else "")
    placeholders = []
    for need in ["reject_too_big_request", "reject_too_big_batch_request", "reject_too_big_batch_response", "reject_too_many_subscriptions"]:
        if need not in rejects:
            problems.append(f"{need} not found")
            placeholders.append(need)
    ok = not problems

    def lstr(x):
        return '"' + x.replace("\\", "\\\\").replace('"', '\\"') + '"' if False else json.dumps(x)

    L = ["/- GENERATED by /verif/tools/translate.py from types/src/error.rs — do not edit. -/", "namespace Jrpc.Gen.E", ""]
    L.append(f"def errorConstsTranslatorOk : Bool := {'true' if ok else 'false'}")
    L.append("")
    for k, v in sorted(codes.items()):
        L.append(f"def {k} : Int := {lean_int(v)}")
    L.append("")
    for k, v in sorted(msgs.items()):
        L.append(f"def {k} : String := {json.dumps(v)}")
    L.append("")
    L.append("/-- `ErrorCode::message` for the payload-free kinds, by code constant name -/")
    L.append("def kindMessages : List (String × String) := [" + ", ".join(f'("{k}", {v})' for k, v in sorted(msg_of.items())) + "]")
    L.append("")
    for name, (code, msg, prefix) in sorted(rejects.items()):
        L.append(f"/-- `{name}(limit)`: (code, message, data prefix before the decimal limit) -/")
        L.append(f"def {name} : Int × String × String := ({code}, {msg}, {json.dumps(prefix)})")
    for name in placeholders:
        L.append(f"/-- `{name}` was not found in the source: placeholder so that the models still compile -/")
        L.append(f'def {name} : Int × String × String := (0, "", "")')
    L.append("")
    L.append("end Jrpc.Gen.E")
    write_if_changed(os.path.join(GEN, "ErrorConsts.lean"), "\n".join(L) + "\n")
    info["ErrorConsts"] = {"source": rel, "ok": ok, "problems": problems, "codes": codes, "messages": msgs, "rejects": {k: list(v) for k, v in rejects.items()}}


# ------------------------------------------------------------------------------------------------
def gen_content_types(info):
    """server/src/transport/http.rs `is_json`: the accepted content types (compared with eq_ignore_ascii_case)."""
    rel = "server/src/transport/http.rs"
    src = strip_comments(read(rel))
    problems = []
    body = find_block(src, r"pub fn is_json\(content_type: Option<&hyper::header::HeaderValue>\) -> bool\s*\{")
    types = []
    if body is None:
        problems.append("fn is_json not found")
    else:
        flat = re.sub(r"\s+", " ", body).strip()
        # shape 1: `content_type.and_then(..to_str..).is_some_and(|content| { content.eq_ignore_ascii_case("..") || … })`
        m1 = re.fullmatch(r"content_type\.and_then\(\|val\| val\.to_str\(\)\.ok\(\)\)\.is_some_and\(\|content\| \{ (.*) \}\)", flat)
        # shape 2: `let Some(content) = content_type.and_then(..to_str..) else { return false; }; for x in [ "..", … ] { if content.eq_ignore_ascii_case(x) { return true; } } false`
        m2 = re.fullmatch(
            r"let Some\((\w+)\) = content_type\.and_then\(\|val\| val\.to_str\(\)\.ok\(\)\) else \{ return false; \}; "
            r"for (\w+) in \[ ?(.*?),? ?\] \{ if \1\.eq_ignore_ascii_case\(\2\) \{ return true; \} \} false", flat)
        if m1:
            for term in m1.group(1).split("||"):
                t = re.fullmatch(r' ?content\.eq_ignore_ascii_case\("([^"\\]*)"\) ?', term)
                if t:
                    types.append(t.group(1))
                else:
                    problems.append(f"is_json: unrecognised term {term.strip()!r}")
        elif m2:
            for term in m2.group(3).split(","):
                t = re.fullmatch(r' ?"([^"\\]*)" ?', term)
                if t:
                    types.append(t.group(1))
                else:
                    problems.append(f"is_json: unrecognised array element {term.strip()!r}")
        else:
            problems.append("is_json: unrecognised shape")
            # best effort for the *model* (the correspondence still validates it; `c19_translator_ok`
            # stays broken): every string literal of the body
            types = re.findall(r'"([^"\\]*)"', body)
    # the gate itself, in either spelling; the method test must come before the content-type test
    fn = find_block(src, r"pub async fn call_with_service<[^{]*\{") or ""
    fnf = re.sub(r"\s+", " ", fn)
    gate_match = bool(re.search(r"Method::POST if content_type_is_json\(&request\) =>", fnf)) and bool(
        re.search(r"Method::POST => response::unsupported_content_type\(\)", fnf)
    ) and bool(re.search(r"_ => response::method_not_allowed\(\)", fnf))
    gate_early = bool(re.search(
        r"^ ?if \*request\.method\(\) != Method::POST \{ return response::method_not_allowed\(\); \} "
        r"if !content_type_is_json\(&request\) \{ return response::unsupported_content_type\(\); \} ", fnf))
    gate_ok = gate_match or gate_early
    if not gate_ok:
        problems.append("call_with_service: method/content-type gate not recognised")
    ok = not problems
    L = ["/- GENERATED by /verif/tools/translate.py from server/src/transport/http.rs — do not edit. -/", "namespace Jrpc.Gen", ""]
    L.append(f"def contentTypesTranslatorOk : Bool := {'true' if ok else 'false'}")
    L.append("")
    L.append("/-- `is_json`: accepted content-type values (ASCII-case-insensitive) -/")
    L.append("def jsonContentTypes : List String := [" + ", ".join(json.dumps(t) for t in types) + "]")
    L.append("")
    L.append("end Jrpc.Gen")
    write_if_changed(os.path.join(GEN, "ContentTypes.lean"), "\n".join(L) + "\n")
    info["ContentTypes"] = {"source": rel, "ok": ok, "problems": problems, "types": types}


# ------------------------------------------------------------------------------------------------
def gen_limit_wiring(info):
    """Which ServerConfig field reaches which size limit, at every call site (C07 / C08).
    Request-limit sites: soketto `set_max_message_size(..)` (server.rs TowerService path, ws.rs `connect`),
    the `max_request_size` handed to `http::call_with_service` / `read_body` / `too_large`, the argument of
    `reject_too_big_request(..)` in the WS loop.  Response-limit sites: the 2nd argument of `RpcService::new(..)`."""
    problems = []
    sites_req = []   # (site, field)
    sites_resp = []

    def field_of(expr, src_before, depth=0):
        """resolve an expression / local variable to a ServerConfig field name: `x.field`, `x.field as T`,
        a local bound by `let l = <expr>;`, or a local bound by a struct pattern
        `let ServerConfig { field, field: l, .. } = ..;` (also `Self {..}` / `&`-patterns)"""
        if depth > 6:
            return None
        expr = expr.strip()
        expr = re.sub(r"\s+as\s+\w+$", "", expr).strip()
        expr = re.sub(r"^\(+|\)+$", "", expr).strip() if expr.startswith("(") and expr.endswith(")") else expr
        expr = re.sub(r"^[&*]+", "", expr).strip()
        m = re.search(r"\.\s*(max_\w+)$", expr)
        if m:
            return m.group(1)
        if re.fullmatch(r"\w+", expr):
            best = None   # (position, field or None)
            for ms in re.finditer(r"let\s+(?:mut\s+)?" + re.escape(expr) + r"\s*(?::[^=;]+)?=\s*([^;]+);", src_before):
                best = (ms.start(), ("expr", ms.group(1), src_before[: ms.start()]))
            for ms in re.finditer(r"let\s+&?(?:\w+::)*\w+\s*\{([^}]*)\}\s*=\s*[^;]+;", src_before):
                for ent in [e.strip() for e in ms.group(1).split(",")]:
                    mm = re.fullmatch(r"(?:ref\s+)?(\w+)(?:\s*:\s*(?:ref\s+)?(\w+))?", ent)
                    if mm and (mm.group(2) or mm.group(1)) == expr:
                        if best is None or ms.start() > best[0]:
                            best = (ms.start(), ("field", mm.group(1)))
            if best:
                kind = best[1]
                if kind[0] == "field":
                    return kind[1] if kind[1].startswith("max_") else None
                return field_of(kind[1], kind[2], depth + 1)
            # a function parameter with the field's name
            if expr.startswith("max_"):
                return expr
        return None

    def fn_text(src, name):
        """(text before the body's opening brace incl. the signature, body) of `fn name`"""
        m = re.search(r"\bfn " + re.escape(name) + r"\s*[<(]", src)
        if not m:
            return None, None
        i = m.end()
        # skip to the body: first `{` at paren/angle depth 0 after the parameter list
        depth = 0
        j = src.find("(", m.start())
        k = j
        while k < len(src):
            if src[k] == "(":
                depth += 1
            elif src[k] == ")":
                depth -= 1
                if depth == 0:
                    break
            k += 1
        params = src[j + 1 : k]
        ob = src.find("{", k)
        while ob >= 0:
            # `where` clauses may contain `{`? (no) — take the first
            break
        d = 0
        e = ob
        while e < len(src):
            if src[e] == "{":
                d += 1
            elif src[e] == "}":
                d -= 1
                if d == 0:
                    break
            e += 1
        return params, src[ob + 1 : e]

    srv = strip_comments(read("server/src/server.rs"))
    ws = strip_comments(read("server/src/transport/ws.rs"))
    http = strip_comments(read("server/src/transport/http.rs"))

    for name, src in (("server.rs:TowerService", srv), ("ws.rs:connect", ws)):
        ms = list(re.finditer(r"set_max_message_size\(([^;]*)\);", src))
        if len(ms) != 1:
            problems.append(f"{name}: expected exactly one set_max_message_size call, found {len(ms)}")
        for m in ms:
            f = field_of(m.group(1), src[: m.start()])
            sites_req.append((name + ":set_max_message_size", f or "?"))
            if not f:
                problems.append(f"{name}: cannot resolve {m.group(1)!r}")

    m = re.search(r"http::call_with_service\(\s*[^,]+,\s*[^,]+,\s*([^,]+?)\s*,", srv)
    if m:
        f = field_of(m.group(1), srv[: m.start()])
        sites_req.append(("server.rs:TowerService:http::call_with_service", f or "?"))
        if not f:
            problems.append("server.rs: cannot resolve the request limit passed to call_with_service")
    else:
        problems.append("server.rs: call to http::call_with_service not found")

    # http.rs: call_with_service_builder hands a ServerConfig field to call_with_service (3rd argument)
    _, bbody = fn_text(http, "call_with_service_builder")
    m = re.search(r"(?<![:\w])call_with_service\(\s*([^,]+),\s*([^,]+),\s*([^,]+),", bbody or "")
    if m:
        f = field_of(m.group(3), bbody[: m.start()])
        sites_req.append(("http.rs:call_with_service_builder", f or "?"))
        if not f:
            problems.append("http.rs: cannot resolve the request limit call_with_service_builder passes on")
    else:
        problems.append("http.rs: call_with_service_builder wiring not recognised")

    # http.rs: call_with_service uses its u32 parameter for read_body and too_large
    params, cbody = fn_text(http, "call_with_service")
    u32s = re.findall(r"(\w+)\s*:\s*u32", params or "")
    if cbody is not None and len(u32s) == 1:
        param = u32s[0]

        def is_param(e):
            e = re.sub(r"\s+as\s+\w+$", "", e.strip())
            if e == param:
                return True
            ms = list(re.finditer(r"let\s+" + re.escape(e) + r"\s*(?::[^=;]+)?=\s*([^;]+);", cbody)) if re.fullmatch(r"\w+", e) else []
            return bool(ms) and re.sub(r"\s+as\s+\w+$", "", ms[-1].group(1).strip()) == param

        m1 = re.search(r"read_body\(\s*[^,]+,\s*[^,]+,\s*([^)]+?)\s*\)", cbody)
        m2s = re.findall(r"too_large\(\s*([^)]+?)\s*\)", cbody)
        ok1 = bool(m1 and is_param(m1.group(1)))
        ok2 = bool(m2s) and all(is_param(x) for x in m2s)
        if not m2s:
            # `too_large(..)` may sit in a private helper that is handed the parameter
            # (e.g. `Err(e) => return read_body_failed(e, max_request_size)`): follow one call level
            found = []
            for mc in re.finditer(r"\b(\w+)\(([^()]*)\)", cbody):
                args = [a.strip() for a in mc.group(2).split(",")]
                if not any(is_param(a) for a in args if a):
                    continue
                hp, hb = fn_text(http, mc.group(1))
                if hb is None or "too_large(" not in hb:
                    continue
                hnames = [x.split(":")[0].strip() for x in (hp or "").split(",")]
                if len(hnames) != len(args):
                    continue
                passed = {hn for hn, a in zip(hnames, args) if a and is_param(a)}
                for x in re.findall(r"too_large\(\s*([^)]+?)\s*\)", hb):
                    found.append(re.sub(r"\s+as\s+\w+$", "", x.strip()) in passed)
            ok2 = bool(found) and all(found)
        sites_req.append(("http.rs:call_with_service:read_body", "max_request_body_size" if ok1 else "?"))
        sites_req.append(("http.rs:call_with_service:too_large", "max_request_body_size" if ok2 else "?"))
        if not (ok1 and ok2):
            problems.append("http.rs: read_body / too_large do not use the request-size parameter")
    else:
        problems.append("http.rs: fn call_with_service signature not recognised")

    # ws.rs: the argument of reject_too_big_request in the receive loop
    m2s = list(re.finditer(r"reject_too_big_request\(\s*([^)]+?)\s*\)", ws))
    if m2s:
        for m2 in m2s:
            f = field_of(m2.group(1), ws[: m2.start()])
            sites_req.append(("ws.rs:background_task:reject_too_big_request", f or "?"))
            if not f:
                problems.append("ws.rs: reject_too_big_request argument not recognised")
    else:
        problems.append("ws.rs: reject_too_big_request not found")

    for name, src in (("server.rs:TowerService:ws", srv), ("ws.rs:connect", ws), ("http.rs:call_with_service_builder", http)):
        found = False
        for m in re.finditer(r"RpcService::new\(\s*([^,]+),\s*([^,]+),", src):
            f = field_of(m.group(2), src[: m.start()])
            sites_resp.append((name + ":RpcService::new", f or "?"))
            found = True
        if not found:
            problems.append(f"{name}: RpcService::new not found")
    # per-connection subscription cap: every `BoundedSubscriptions::new(..)` site
    sites_subs = []
    for name, src in (("server.rs:TowerService:ws", srv), ("ws.rs:connect", ws)):
        ms = list(re.finditer(r"BoundedSubscriptions::new\(\s*([^()]*?)\s*,?\s*\)", src))
        if not ms:
            problems.append(f"{name}: BoundedSubscriptions::new not found")
        for m in ms:
            f = field_of(m.group(1), src[: m.start()])
            sites_subs.append((name + ":BoundedSubscriptions::new", f or "?"))
    ok = not problems

    def lf(f):
        return {"max_request_body_size": ".maxRequestBodySize", "max_response_body_size": ".maxResponseBodySize"}.get(f, ".other")

    L = ["/- GENERATED by /verif/tools/translate.py from server/src/{server.rs,transport/ws.rs,transport/http.rs} — do not edit. -/", "namespace Jrpc.Gen", ""]
    L.append(f"def limitWiringTranslatorOk : Bool := {'true' if ok else 'false'}")
    L.append("")
    L.append("inductive LimitField where\n  | maxRequestBodySize\n  | maxResponseBodySize\n  | other\n  deriving DecidableEq, Repr")
    L.append("")
    L.append("/-- every site where a limit on *incoming* messages is configured or reported, with the ServerConfig field used -/")
    L.append("def requestLimitSites : List (String × LimitField) := [\n" + ",\n".join(f'  ("{n}", {lf(f)})' for n, f in sites_req) + "\n]")
    L.append("")
    L.append("/-- every site where the limit on *responses* is handed to the RPC service -/")
    L.append("def responseLimitSites : List (String × LimitField) := [\n" + ",\n".join(f'  ("{n}", {lf(f)})' for n, f in sites_resp) + "\n]")
    L.append("")
    L.append("/-- every site where the per-connection subscription cap is configured: (site, uses max_subscriptions_per_connection) -/")
    L.append("def subscriptionCapSites : List (String × Bool) := [\n" + ",\n".join(f'  ("{n}", {"true" if f == "max_subscriptions_per_connection" else "false"})' for n, f in sites_subs) + "\n]")
    L.append("")
    L.append("end Jrpc.Gen")
    write_if_changed(os.path.join(GEN, "LimitWiring.lean"), "\n".join(L) + "\n")
    info["LimitWiring"] = {"source": "server/src/server.rs, server/src/transport/ws.rs, server/src/transport/http.rs", "ok": ok, "problems": problems, "request_sites": sites_req, "response_sites": sites_resp, "subscription_cap_sites": sites_subs}


# ------------------------------------------------------------------------------------------------
# ------------------------------------------------------------------------------------------------
def _split_fields(text):
    """split a struct body at commas outside () [] {} and <> (`->` does not close a bracket)"""
    parts, depth, cur, prev = [], 0, "", ""
    for ch in text:
        if ch in "([{<":
            depth += 1
        elif ch in ")]}" or (ch == ">" and prev != "-"):
            depth -= 1
        if ch == "," and depth == 0:
            parts.append(cur)
            cur = ""
        else:
            cur += ch
        prev = ch
    if cur.strip():
        parts.append(cur)
    return [p.strip() for p in parts if p.strip()]


def _serde_struct(src, name, problems):
    """member names a derived serde impl of `pub struct <name>` reads/writes, in declaration order:
    (fields, deny_unknown_fields, derives_deserialize, derives_serialize); a field is
    (wire name, optional when reading, omitted when None on writing); `#[serde(skip)]` fields left out."""
    m = re.search(r"((?:#!?\[[^\]]*\]\s*)*)pub struct " + name + r"\b[^{;(]*\{", src)
    if not m:
        problems.append(f"struct {name} not found")
        return [], False, False, False
    attrs = m.group(1)
    close = _matching_brace(src, m.end() - 1)
    body = src[m.end():close]
    serde_attrs = " ".join(re.findall(r"serde\(((?:[^()]|\([^()]*\))*)\)", attrs))
    if re.search(r"\brename_all\b|\btag\b|\buntagged\b|\bfrom\b|\binto\b|\btry_from\b|\btransparent\b|\bdefault\b", serde_attrs):
        problems.append(f"struct {name}: container attribute not understood: {serde_attrs!r}")
    deny = bool(re.search(r"\bdeny_unknown_fields\b", serde_attrs))
    derives = " ".join(re.findall(r"derive\(([^)]*)\)", attrs))
    fields = []
    for item in _split_fields(body):
        fattrs = " ".join(re.findall(r"serde\(((?:[^()]|\([^()]*\))*)\)", item))
        decl = re.sub(r"#\[(?:[^\[\]]|\[[^\]]*\])*\]", "", item).strip()
        mm = re.match(r"(?:pub(?:\([^)]*\))?\s+)?(?:r#)?(\w+)\s*:\s*(.+)$", decl, flags=re.S)
        if not mm:
            problems.append(f"struct {name}: field not understood: {item[:60]!r}")
            continue
        fname, ty = mm.group(1), mm.group(2).strip()
        if re.search(r"(?<![\w_])skip(?![\w_])", fattrs):
            continue
        if re.search(r"\bflatten\b|\bwith\b|\bdeserialize_with\b|\bserialize_with\b|\balias\b|\bskip_deserializing\b|\bskip_serializing\b(?!_)", fattrs):
            problems.append(f"struct {name}.{fname}: field attribute not understood: {fattrs!r}")
        rn = re.search(r'\brename\s*=\s*"([^"]*)"', fattrs)
        wire = rn.group(1) if rn else fname
        optional = bool(re.match(r"(?:std::option::|core::option::)?Option\s*<", ty)) or bool(re.search(r"\bdefault\b", fattrs))
        omit_none = bool(re.search(r'skip_serializing_if\s*=\s*"Option::is_none"', fattrs))
        fields.append((wire, optional, omit_none))
    return fields, deny, bool(re.search(r"\bDeserialize\b", derives)), bool(re.search(r"\bSerialize\b", derives))


def gen_wire_fields(info):
    """The member names of the JSON-RPC wire structs, as the serde derives (and the hand-written Response
    visitor) of jsonrpsee-types read and write them -> Gen/WireFields.lean.  The hand-written model
    (Model/Wire.lean `structFields [...] deny`, `respOfMembers`, the encoders) is tied to these tables by
    Theorems/WireFieldsTie.lean."""
    problems = []
    req = strip_comments(read("types/src/request.rs"))
    rsp = strip_comments(read("types/src/response.rs"))
    err = strip_comments(read("types/src/error.rs"))
    structs = []
    for label, src, name in (("request", req, "Request"), ("notification", req, "Notification"), ("invalidRequest", req, "InvalidRequest"),
                             ("errorObject", err, "ErrorObject"), ("subscriptionPayload", rsp, "SubscriptionPayload"),
                             ("subscriptionPayloadError", rsp, "SubscriptionPayloadError")):
        fields, deny, de, ser = _serde_struct(src, name, problems)
        if not de:
            problems.append(f"struct {name}: Deserialize is not derived (hand-written impl?)")
        structs.append((label, name, fields, deny, de, ser))
    # hand-written visitor of Response: the names its field visitor recognises, FIELDS, and what Serialize writes
    # `"name" => Ok(Field::X)` / `"name" => Self::X` / `"name" => ResponseField::X` (any enum path, with or without Ok)
    arms = re.findall(r'"(\w+)"\s*=>\s*(?:Ok\(\s*)?\w+::(\w+)', rsp)
    if not arms:
        problems.append("Response: no `\"name\" => <Enum>::X` arms found in the field visitor")
    mF = re.search(r"const FIELDS\s*:\s*&\[&str\]\s*=\s*&\[([^\]]*)\]", rsp)
    fields_const = re.findall(r'"(\w+)"', mF.group(1)) if mF else []
    if not mF:
        problems.append("Response: const FIELDS not found")
    ser_block = find_block(rsp, r"impl<[^>]*>\s*Serialize\s+for\s+Response<[^{]*\{") or ""
    written = re.findall(r'serialize_field\(\s*"(\w+)"', ser_block)
    if not written:
        problems.append("Response: no serialize_field calls found in `impl Serialize for Response`")
    ok = not problems

    def cps(s):
        return "[" + ", ".join(str(ord(c)) for c in s) + "]"

    L = ["/- GENERATED by /verif/tools/translate.py from types/src/{request,response,error}.rs — do not edit. -/", "namespace Jrpc.Gen", "",
         f"def wireFieldsTranslatorOk : Bool := {'true' if ok else 'false'}", ""]
    if problems:
        L += ["/- unrecognised:"] + ["   " + p_.replace("-/", "- /") for p_ in problems] + ["-/", ""]
    L += ["/-- a struct whose serde impls are derived: member names (Unicode code points) in declaration order —",
          "the order the derived `Serialize` writes them and the derived visitor reads a JSON array —, which may be",
          "absent when reading (`Option<_>`), which are left out when `None` on writing, and `deny_unknown_fields` -/",
          "structure WireStruct where", "  fields : List (List Nat)", "  optional : List Bool", "  omitNone : List Bool", "  deny : Bool",
          "  deserialize : Bool", "  serialize : Bool", "  deriving DecidableEq, Repr", ""]
    for label, name, fields, deny, de, ser in structs:
        L.append(f"/-- `pub struct {name}`: " + ", ".join(f[0] for f in fields) + " -/")
        L.append(f"def {label}Struct : WireStruct :=")
        L.append("  { fields := [" + ", ".join(cps(f[0]) for f in fields) + "],")
        L.append("    optional := [" + ", ".join("true" if f[1] else "false" for f in fields) + "],")
        L.append("    omitNone := [" + ", ".join("true" if f[2] else "false" for f in fields) + "],")
        L.append(f"    deny := {'true' if deny else 'false'}, deserialize := {'true' if de else 'false'}, serialize := {'true' if ser else 'false'} }}")
        L.append("")
    L.append("/-- hand-written `Deserialize for Response`: the names its field visitor recognises (anything else is ignored), in arm order: " + ", ".join(a[0] for a in arms) + " -/")
    L.append("def responseFieldArms : List (List Nat) := [" + ", ".join(cps(a[0]) for a in arms) + "]")
    L.append("/-- `const FIELDS` handed to `deserialize_struct` -/")
    L.append("def responseFieldsConst : List (List Nat) := [" + ", ".join(cps(a) for a in fields_const) + "]")
    L.append("/-- `serialize_field` names of `impl Serialize for Response` in source order (`error` / `result` are the two arms of one match): " + ", ".join(written) + " -/")
    L.append("def responseWritten : List (List Nat) := [" + ", ".join(cps(a) for a in written) + "]")
    L += ["", "end Jrpc.Gen"]
    write_if_changed(os.path.join(GEN, "WireFields.lean"), "\n".join(L) + "\n")
    info["WireFields"] = {"source": "types/src/request.rs, types/src/response.rs, types/src/error.rs", "ok": ok, "problems": problems,
                          "structs": {label: [f[0] for f in fields] for label, _, fields, _, _, _ in structs},
                          "response_arms": [a[0] for a in arms]}



GENERATORS = [gen_error_codes, gen_error_consts, gen_content_types, gen_limit_wiring, gen_conn_wiring, gen_default_ports, gen_wire_fields]
GEN_FILE = {"gen_error_codes": "ErrorCodes.lean", "gen_error_consts": "ErrorConsts.lean", "gen_content_types": "ContentTypes.lean",
            "gen_limit_wiring": "LimitWiring.lean", "gen_conn_wiring": "ConnWiring.lean", "gen_default_ports": "DefaultPorts.lean", "gen_wire_fields": "WireFields.lean"}


def main():
    os.makedirs(GEN, exist_ok=True)
    info = {}
    for g in GENERATORS:
        try:
            g(info)
        except Exception as e:  # a crashed generator is a failed translation, not a crashed check
            info[g.__name__] = {"ok": False, "problems": [f"exception: {e!r}"]}
            # the file it would have rewritten is stale now: it must not go on saying the translation is fine
            stale = os.path.join(GEN, GEN_FILE.get(g.__name__, ""))
            if os.path.isfile(stale):
                with open(stale, encoding="utf-8") as f:
                    t = f.read()
                write_if_changed(stale, re.sub(r"(TranslatorOk : Bool := )true", r"\1false", t))
    out = os.environ.get("VERIF_TRANSLATE_INFO", "/verif/.build/translate_info.json")
    os.makedirs(os.path.dirname(out), exist_ok=True)
    with open(out, "w") as f:
        json.dump(info, f, indent=1, sort_keys=True)
    bad = {k: v["problems"] for k, v in info.items() if not v.get("ok")}
    if bad:
        print("translator: unrecognised source patterns:", json.dumps(bad))
    return 0


if __name__ == "__main__":
    sys.exit(main())
