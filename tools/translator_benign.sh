#!/bin/bash
# Translator-only false-alarm test: for every behaviour-preserving patch under seeded/benign, apply it to a
# scratch worktree of /repo, run tools/translate.py into a scratch Gen directory and compare with the
# tables generated from the unchanged tree.  Prints one line per patch: problems (if a generator no longer
# recognises the source) and which generated files differ.   usage: tools/translator_benign.sh [dir]
DIR=${1:-/verif/seeded/benign}
W=/tmp/trt.$$
mkdir -p $W/ref && git -C /repo worktree add -q --detach $W/repo HEAD || exit 2
VERIF_REPO=$W/repo VERIF_GEN=$W/ref VERIF_TRANSLATE_INFO=$W/ref.json python3 /verif/tools/translate.py >/dev/null 2>&1
bad=0
for d in $(ls -d $DIR/B* | sort -V); do
  id=$(basename $d)
  (cd $W/repo && git checkout -q -- . && git apply $d/patch.diff) || { echo "$id: patch does not apply"; continue; }
  rm -rf $W/gen; mkdir -p $W/gen
  VERIF_REPO=$W/repo VERIF_GEN=$W/gen VERIF_TRANSLATE_INFO=$W/info.json python3 /verif/tools/translate.py >/dev/null 2>&1
  probs=$(python3 -c "import json;i=json.load(open('$W/info.json'));print({k:v['problems'] for k,v in i.items() if not v['ok']} or '')")
  diffs=$(diff -rq $W/gen $W/ref | sed 's/.*gen\///; s/ and .*//' | tr '\n' ' ')
  [ -n "$probs" ] && bad=$((bad+1))
  echo "$id: ${probs:-ok} ${diffs:+| tables differ: $diffs}"
done
git -C /repo worktree remove --force $W/repo; rm -rf $W
echo "patches with an unrecognised source: $bad"
